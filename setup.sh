#!/bin/sh
# Run once after a fresh restore: builds the explorer offline (warms the Go build cache).
set -e
VERIF_DIR="$(cd "$(dirname "$0")" && pwd)"
export GOFLAGS=-mod=mod GOPROXY=off GOSUMDB=off GOTOOLCHAIN=local CGO_ENABLED=0
mkdir -p "$VERIF_DIR/bin" "$VERIF_DIR/evidence" "$VERIF_DIR/replays"
cp -f /repo/go.sum "$VERIF_DIR/mc/go.sum"
cd "$VERIF_DIR/mc" && go build -o "$VERIF_DIR/bin/amc" ./cmd/amc
"$VERIF_DIR/bin/amc" list
