// Package engine is the bounded exhaustive explorer: depth-first search over
// nested cache branches of the real multistore, deduplicated on a canonical
// hash of the concrete state, with per-class operation budgets.
package engine

import (
	"crypto/sha256"
	"encoding/json"
	"fmt"
	"os"
	"path/filepath"
	"sort"
	"strings"
	"sync"
	"sync/atomic"
	"time"

	sdk "github.com/cosmos/cosmos-sdk/types"

	"verifmc/world"
)

// Ref is a property's reference-model state carried along every path.
type Ref interface {
	Clone() Ref
	Digest() []byte
}

// Node is one explored state.
type Node struct {
	Ctx   sdk.Context
	Ref   Ref
	Used  []int
	Depth int
	Trace []world.Op
	snap  *world.Snap
	W     *world.World
	Aux   map[string]any // per-node scratch for oracles (not part of identity)
	Seed  []world.Op     // the seed history this node descends from (for history-dependent classifiers; not part of identity)
}

// Snap returns the (cached) decoded snapshot of the node.
func (n *Node) Snap() *world.Snap {
	if n.snap == nil {
		n.snap = n.W.Snapshot(n.Ctx)
	}
	return n.snap
}

// Failure is one oracle failure on one transition or state.
type Failure struct {
	Oracle string `json:"oracle"`
	Cause  string `json:"cause"` // cause class computed by the property's classifier ("" = unexplained)
	Msg    string `json:"msg"`
}

// Exec describes one executed transition handed to the oracle.
type Exec struct {
	W    *world.World
	Prev *Node
	Op   world.Op
	Res  world.Result
	Next *Node // successor (for rejected tx: a node over the unchanged state; Ref cloned from Prev)
	Cnt  *Counters
}

// Counters are vacuity / coverage counters, merged over workers.
type Counters struct{ M map[string]int64 }

func (c *Counters) Inc(k string)          { c.M[k]++ }
func (c *Counters) Add(k string, n int64) { c.M[k] += n }

// Scenario closes the system for one property.
type Scenario struct {
	Property   string
	Name       string
	Cfg        world.Config
	Seeds      [][]world.Op // seed histories (real transitions from the root state); at least one (may be empty history)
	Stores     []string
	ClassNames []string
	Budgets    []int
	MaxDepth   int
	NewRef     func(w *world.World, root *Node) Ref
	Ops        func(n *Node) []world.Op
	Step       func(x *Exec) []Failure // oracle + reference update, called for every executed transition
	SeedStep   bool                    // call Step (and count failures) on seed transitions too
	Expand     func(x *Exec) bool      // optional: whether to expand the successor (default: not rejected and no error for callbacks/blocks? -> see defaultExpand)
	Late       func(x *Exec) []Failure // optional: called for an expanded transition after its successor's subtree has been explored
	Required   []string                // counters that must be > 0 (vacuity guard)
	Note       string
	KeyExtra   func(n *Node) []byte // optional extra identity
}

// KnownFinding is one entry of /verif/known_findings.json.
type KnownFinding struct {
	ID       string `json:"id"`
	Property string `json:"property"`
	Status   string `json:"status"` // "known" | "fixed"
	Oracle   string `json:"oracle"`
	Cause    string `json:"cause"`
	Commit   string `json:"commit,omitempty"`
	What     string `json:"what"`
}

type FailRec struct {
	F     Failure
	Scen  string
	Seed  int
	Trace []world.Op
	Count int64
}

// Report is the outcome of exploring one scenario.
type Report struct {
	Scenario    string           `json:"scenario"`
	States      int64            `json:"states"`
	Transitions int64            `json:"transitions"`
	Rejected    int64            `json:"rejected_transitions"`
	Exhaustive  bool             `json:"exhaustive"`
	Budgets     map[string]int   `json:"budgets"`
	MaxDepth    int              `json:"max_depth"`
	Seeds       int              `json:"seeds"`
	PerDepth    []int64          `json:"states_per_depth"`
	Counters    map[string]int64 `json:"counters"`
	Samples     []string         `json:"samples"`
	WallS       float64          `json:"wall_s"`
	Note        string           `json:"note,omitempty"`
	fails       map[string]*FailRec
	failMu      sync.Mutex
}

type visited struct {
	sh [256]struct {
		mu sync.Mutex
		m  map[[32]byte]struct{}
	}
}

func newVisited() *visited {
	v := &visited{}
	for i := range v.sh {
		v.sh[i].m = map[[32]byte]struct{}{}
	}
	return v
}

// add returns true when the key was not present.
func (v *visited) add(k [32]byte) bool {
	s := &v.sh[k[0]]
	s.mu.Lock()
	_, ok := s.m[k]
	if !ok {
		s.m[k] = struct{}{}
	}
	s.mu.Unlock()
	return !ok
}

type runner struct {
	sc       *Scenario
	vis      *visited
	rep      *Report
	deadline time.Time
	stop     atomic.Bool
	timedOut atomic.Bool
	states   atomic.Int64
	trans    atomic.Int64
	rej      atomic.Int64
	perDepth []atomic.Int64
	maxFail  int64
	nfail    atomic.Int64
	sampleMu sync.Mutex
	seedNum  int64
}

func (r *runner) key(n *Node) [32]byte {
	h := r.sc.hashNode(n)
	return h
}

func (sc *Scenario) hashNode(n *Node) [32]byte {
	stores := sc.Stores
	if stores == nil {
		stores = world.AllStores
	}
	h := sha256.New()
	var rest []string
	for _, st := range stores {
		if st == "alliance" {
			d := n.Snap().AllianceDigest
			h.Write(d[:])
		} else {
			rest = append(rest, st)
		}
	}
	sh := n.W.Hash(n.Ctx, rest)
	h.Write(sh[:])
	if n.Ref != nil {
		h.Write(n.Ref.Digest())
	}
	for _, u := range n.Used {
		h.Write([]byte{byte(u)})
	}
	if sc.KeyExtra != nil {
		h.Write(sc.KeyExtra(n))
	}
	var out [32]byte
	copy(out[:], h.Sum(nil))
	return out
}

func traceString(seed int, t []world.Op) string {
	parts := make([]string, len(t))
	for i, o := range t {
		parts[i] = o.String()
	}
	return fmt.Sprintf("seed%d: %s", seed, strings.Join(parts, " ; "))
}

func (r *runner) record(f Failure, seed int, trace []world.Op) {
	sig := f.Oracle + "|" + f.Cause
	r.rep.failMu.Lock()
	defer r.rep.failMu.Unlock()
	rec, ok := r.rep.fails[sig]
	if !ok {
		rec = &FailRec{F: f, Scen: r.sc.Name, Seed: seed, Trace: append([]world.Op{}, trace...)}
		r.rep.fails[sig] = rec
		r.nfail.Add(1)
	} else if len(trace) < len(rec.Trace) {
		rec.F, rec.Seed, rec.Trace = f, seed, append([]world.Op{}, trace...)
	}
	rec.Count++
}

// step executes op from n and returns the successor node (nil if not to be expanded).
func (r *runner) step(w *world.World, n *Node, op world.Op, seed int, cnt *Counters, check bool) (*Node, world.Result) {
	res := w.Exec(n.Ctx, op)
	next := &Node{Ctx: res.Ctx, W: w, Depth: n.Depth + 1, Used: append([]int{}, n.Used...), Seed: n.Seed}
	next.Trace = append(append(make([]world.Op, 0, len(n.Trace)+1), n.Trace...), op)
	if op.Class >= 0 && op.Class < len(next.Used) {
		next.Used[op.Class]++
	}
	if n.Ref != nil {
		next.Ref = n.Ref.Clone()
	}
	if res.Rejected {
		next.snap = n.snap
	}
	x := &Exec{W: w, Prev: n, Op: op, Res: res, Next: next, Cnt: cnt}
	if !res.Rejected && check {
		if qp := next.Snap().QueryPanic; qp != "" && n.Snap().QueryPanic == "" {
			r.record(Failure{Oracle: "module-query-panic", Cause: "", Msg: "after " + op.String() + " the module's own balance function panics: " + qp}, seed, next.Trace)
		}
	}
	if r.sc.Step != nil {
		fails := r.sc.Step(x)
		if check {
			for _, f := range fails {
				r.record(f, seed, next.Trace)
			}
		}
	}
	expand := !res.Rejected
	if r.sc.Expand != nil {
		expand = r.sc.Expand(x)
	}
	if !expand {
		return nil, res
	}
	return next, res
}

func (r *runner) dfs(w *world.World, n *Node, seed int, cnt *Counters) {
	if r.stop.Load() {
		return
	}
	if n.Depth >= r.sc.MaxDepth {
		r.sample(seed, n)
		return
	}
	ops := r.sc.Ops(n)
	expanded := false
	for _, op := range ops {
		if op.Class >= 0 && op.Class < len(r.sc.Budgets) && n.Used[op.Class] >= r.sc.Budgets[op.Class] {
			continue
		}
		if r.stop.Load() {
			return
		}
		if time.Now().After(r.deadline) {
			r.timedOut.Store(true)
			r.stop.Store(true)
			return
		}
		next, res := r.step(w, n, op, seed, cnt, true)
		r.trans.Add(1)
		cnt.Inc("op." + op.K)
		if res.Rejected {
			r.rej.Add(1)
			cnt.Inc("rejected." + op.K)
		}
		if r.nfail.Load() >= r.maxFail {
			r.stop.Store(true)
			return
		}
		if next == nil {
			continue
		}
		if !r.vis.add(r.key(next)) {
			continue
		}
		r.states.Add(1)
		if next.Depth < len(r.perDepth) {
			r.perDepth[next.Depth].Add(1)
		}
		expanded = true
		r.dfs(w, next, seed, cnt)
		if r.sc.Late != nil && !r.stop.Load() {
			// post-order hook: the successor's whole subtree has been executed on this world in the meantime
			for _, f := range r.sc.Late(&Exec{W: w, Prev: n, Op: op, Res: res, Next: next, Cnt: cnt}) {
				r.record(f, seed, next.Trace)
			}
		}
	}
	if !expanded {
		r.sample(seed, n)
	}
}

func (r *runner) sample(seed int, n *Node) {
	if len(n.Trace) == 0 {
		return
	}
	r.sampleMu.Lock()
	if len(r.rep.Samples) < 6 {
		r.rep.Samples = append(r.rep.Samples, traceString(seed, n.Trace))
	}
	r.sampleMu.Unlock()
}

// buildSeed replays a seed history on w and returns the seed node.
func (r *runner) buildSeed(w *world.World, si int, cnt *Counters, check bool) *Node {
	root := &Node{Ctx: w.Root, W: w, Used: make([]int, len(r.sc.Budgets))}
	if r.sc.NewRef != nil {
		root.Ref = r.sc.NewRef(w, root)
	}
	n := root
	for _, op := range r.sc.Seeds[si] {
		o := op
		o.Class = -1
		var next *Node
		var res world.Result
		if r.sc.SeedStep {
			next, res = r.step(w, n, o, si, cnt, check)
		} else {
			res = w.Exec(n.Ctx, o)
			next = &Node{Ctx: res.Ctx, W: w, Used: n.Used, Ref: n.Ref}
		}
		if res.Err != nil || next == nil {
			panic(fmt.Sprintf("HARNESS: seed %d op %s failed: %v", si, o, res.Err))
		}
		next.Depth = 0
		// (the trace keeps the seed prefix until the seed is complete, so that a failure inside the seed can be replayed)
		next.Used = make([]int, len(r.sc.Budgets))
		n = next
	}
	n.Depth = 0
	n.Trace = nil
	n.Seed = r.sc.Seeds[si]
	return n
}

// History is everything that was executed to reach n: the seed history followed by the explored operations.
func (n *Node) History() []world.Op {
	return append(append([]world.Op{}, n.Seed...), n.Trace...)
}

type item struct {
	seed int
	path []world.Op
	key  [32]byte // identity of the item's state as computed on world 0
}

// Run explores one scenario with nworkers worlds.
func Run(sc *Scenario, worlds []*world.World, deadline time.Time, seedNum int64) *Report {
	t0 := time.Now()
	rep := &Report{Scenario: sc.Name, Budgets: map[string]int{}, MaxDepth: sc.MaxDepth, Seeds: len(sc.Seeds), Counters: map[string]int64{}, fails: map[string]*FailRec{}, Note: sc.Note}
	for i, b := range sc.Budgets {
		name := fmt.Sprintf("class%d", i)
		if i < len(sc.ClassNames) {
			name = sc.ClassNames[i]
		}
		rep.Budgets[name] = b
	}
	r := &runner{sc: sc, vis: newVisited(), rep: rep, deadline: deadline, maxFail: 40, seedNum: seedNum}
	r.perDepth = make([]atomic.Int64, sc.MaxDepth+2)
	if len(sc.Seeds) == 0 {
		sc.Seeds = [][]world.Op{nil}
	}
	// Phase 1 (sequential, world 0): expand seeds to a frontier of work items.
	cnt0 := &Counters{M: map[string]int64{}}
	w0 := worlds[0]
	var items []item
	type fr struct {
		n    *Node
		seed int
	}
	var frontier []fr
	for si := range sc.Seeds {
		n := r.buildSeed(w0, si, cnt0, true)
		if r.vis.add(r.key(n)) {
			r.states.Add(1)
			r.perDepth[0].Add(1)
			frontier = append(frontier, fr{n, si})
		}
	}
	target := 24 * len(worlds)
	for depth := 0; depth < sc.MaxDepth-1 && len(frontier) < target && len(frontier) > 0 && len(worlds) > 1; depth++ {
		var nextF []fr
		for _, f := range frontier {
			if f.n.Depth >= sc.MaxDepth {
				continue
			}
			for _, op := range sc.Ops(f.n) {
				if op.Class >= 0 && op.Class < len(sc.Budgets) && f.n.Used[op.Class] >= sc.Budgets[op.Class] {
					continue
				}
				next, res := r.step(w0, f.n, op, f.seed, cnt0, true)
				r.trans.Add(1)
				cnt0.Inc("op." + op.K)
				if res.Rejected {
					r.rej.Add(1)
					cnt0.Inc("rejected." + op.K)
				}
				if next == nil || !r.vis.add(r.key(next)) {
					continue
				}
				r.states.Add(1)
				r.perDepth[next.Depth].Add(1)
				nextF = append(nextF, fr{next, f.seed})
			}
		}
		frontier = nextF
	}
	for _, f := range frontier {
		items = append(items, item{f.seed, f.n.Trace, r.key(f.n)})
	}
	// Phase 2: workers take items; each replays the item's path on its own world, then DFS.
	ch := make(chan item, len(items))
	for _, it := range items {
		ch <- it
	}
	close(ch)
	var wg sync.WaitGroup
	cnts := make([]*Counters, len(worlds))
	for wi, w := range worlds {
		cnts[wi] = &Counters{M: map[string]int64{}}
		wg.Add(1)
		go func(w *world.World, cnt *Counters) {
			defer wg.Done()
			scratch := &Counters{M: map[string]int64{}}
			seedCache := map[int]*Node{}
			for it := range ch {
				if r.stop.Load() {
					return
				}
				n, ok := seedCache[it.seed]
				if !ok {
					n = r.buildSeed(w, it.seed, scratch, false)
					seedCache[it.seed] = n
				}
				broken := false
				for _, op := range it.path {
					next, _ := r.step(w, n, op, it.seed, scratch, false)
					if next == nil {
						// a transition that expanded on world 0 is rejected (or fails) on this one: the same history does not give
						// the same result on two separately constructed Apps
						r.record(Failure{Oracle: "cross-world", Cause: "path-not-reproducible", Msg: "a history that ran on one App is rejected on a second, separately constructed App: " + traceString(it.seed, it.path)}, it.seed, it.path)
						broken = true
						break
					}
					n = next
				}
				if broken {
					continue
				}
				// the same history replayed on a separately constructed world must reach the byte-identical state
				cnt.Inc("cross_world.states_compared")
				if r.key(n) != it.key {
					r.record(Failure{Oracle: "cross-world", Cause: "", Msg: "replaying the history on a second, separately constructed world produced a different state: " + traceString(it.seed, it.path)}, it.seed, it.path)
				}
				r.dfs(w, n, it.seed, cnt)
			}
		}(w, cnts[wi])
	}
	wg.Wait()
	for k, v := range cnt0.M {
		rep.Counters[k] += v
	}
	for _, c := range cnts {
		for k, v := range c.M {
			rep.Counters[k] += v
		}
	}
	rep.States = r.states.Load()
	rep.Transitions = r.trans.Load()
	rep.Rejected = r.rej.Load()
	rep.Exhaustive = !r.timedOut.Load() && !r.stop.Load()
	for i := range r.perDepth {
		rep.PerDepth = append(rep.PerDepth, r.perDepth[i].Load())
	}
	for len(rep.PerDepth) > 1 && rep.PerDepth[len(rep.PerDepth)-1] == 0 {
		rep.PerDepth = rep.PerDepth[:len(rep.PerDepth)-1]
	}
	rep.WallS = time.Since(t0).Seconds()
	return rep
}

// Fails returns the recorded failures sorted by signature.
func (r *Report) Fails() []*FailRec {
	var out []*FailRec
	for _, f := range r.fails {
		out = append(out, f)
	}
	sort.Slice(out, func(i, j int) bool {
		return out[i].F.Oracle+out[i].F.Cause < out[j].F.Oracle+out[j].F.Cause
	})
	return out
}

// ReplayFile is the on-disk form of a violation / finding witness.
type ReplayFile struct {
	Property string     `json:"property"`
	Scenario string     `json:"scenario"`
	Tier     string     `json:"tier"`
	Seed     int        `json:"seed_index"`
	Ops      []world.Op `json:"ops"`
	Failure  Failure    `json:"failure"`
	Human    string     `json:"human"`
}

func WriteReplay(dir string, rf ReplayFile, name string) (string, error) {
	if err := os.MkdirAll(dir, 0o755); err != nil {
		return "", err
	}
	p := filepath.Join(dir, name)
	b, _ := json.MarshalIndent(rf, "", " ")
	return p, os.WriteFile(p, b, 0o644)
}

// Replay re-executes a history on a fresh world and returns the failures observed at the last step
// (and all failures along the way).
func Replay(sc *Scenario, w *world.World, seed int, ops []world.Op, verbose bool) (last []Failure, all []Failure, stateHash [32]byte) {
	r := &runner{sc: sc, vis: newVisited(), rep: &Report{fails: map[string]*FailRec{}}, maxFail: 1 << 60}
	cnt := &Counters{M: map[string]int64{}}
	var n *Node
	if len(ops) > 0 && ops[0].Class == -1 {
		// the failure occurred while the seed history itself was being executed (seed operations carry class -1): the trace
		// is a prefix of the seed and starts at the root state
		n = &Node{Ctx: w.Root, W: w, Used: make([]int, len(sc.Budgets))}
		if sc.NewRef != nil {
			n.Ref = sc.NewRef(w, n)
		}
	} else {
		n = r.buildSeed(w, seed, cnt, false)
	}
	for i, op := range ops {
		res := w.Exec(n.Ctx, op)
		next := &Node{Ctx: res.Ctx, W: w, Depth: n.Depth + 1, Used: append([]int{}, n.Used...), Seed: n.Seed}
		next.Trace = append(append([]world.Op{}, n.Trace...), op)
		if n.Ref != nil {
			next.Ref = n.Ref.Clone()
		}
		if res.Rejected {
			next.snap = n.snap
		}
		x := &Exec{W: w, Prev: n, Op: op, Res: res, Next: next, Cnt: cnt}
		var fails []Failure
		if !res.Rejected {
			if qp := next.Snap().QueryPanic; qp != "" && n.Snap().QueryPanic == "" {
				fails = append(fails, Failure{Oracle: "module-query-panic", Msg: "after " + op.String() + " the module's own balance function panics: " + qp})
			}
		}
		if sc.Step != nil {
			fails = append(fails, sc.Step(x)...)
		}
		if verbose {
			fmt.Printf("  step %d %-40s err=%v rejected=%v\n", i+1, op.String(), res.Err, res.Rejected)
			for _, f := range fails {
				fmt.Printf("      FAIL oracle=%s cause=%s %s\n", f.Oracle, f.Cause, f.Msg)
			}
			if os.Getenv("VERIF_DUMP") != "" {
				fmt.Print("    ", next.Snap().Summary())
			}
		}
		all = append(all, fails...)
		last = fails
		n = next
	}
	return last, all, sc.hashNode(n)
}
