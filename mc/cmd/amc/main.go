// amc: alliance model checker front-end.
//
//	amc check <id> [--tier quick|thorough] [--workers N] [--time seconds]
//	amc replay <file>
//	amc list
package main

import (
	"encoding/json"
	"flag"
	"fmt"
	"os"
	"path/filepath"
	"runtime"
	"runtime/debug"
	"runtime/pprof"
	"sort"
	"strconv"
	"strings"
	"time"

	"verifmc/engine"
	"verifmc/props"
	"verifmc/world"
)

func verifDir() string {
	if d := os.Getenv("VERIF_DIR"); d != "" {
		return d
	}
	return "/verif"
}

// outDir: where evidence and replay files are written (VERIF_OUT overrides it for mutation runs so that the committed
// evidence of the unchanged tree is not overwritten)
func outDir() string {
	if d := os.Getenv("VERIF_OUT"); d != "" {
		return d
	}
	return verifDir()
}

func loadKnown() []engine.KnownFinding {
	b, err := os.ReadFile(filepath.Join(verifDir(), "known_findings.json"))
	if err != nil {
		return nil
	}
	var out struct {
		Findings []engine.KnownFinding `json:"findings"`
	}
	if err := json.Unmarshal(b, &out); err != nil {
		fmt.Fprintln(os.Stderr, "HARNESS: known_findings.json unreadable:", err)
		os.Exit(2)
	}
	return out.Findings
}

func matchKnown(known []engine.KnownFinding, prop string, f engine.Failure) *engine.KnownFinding {
	if f.Cause == "" {
		return nil
	}
	for i := range known {
		k := &known[i]
		if k.Property == prop && (k.Oracle == f.Oracle || k.Oracle == "*") && k.Cause == f.Cause && k.Status == "known" {
			return k
		}
	}
	return nil
}

func buildWorlds(cfg world.Config, n int) []*world.World {
	ws := make([]*world.World, n)
	done := make(chan int, n)
	for i := 0; i < n; i++ {
		go func(i int) { ws[i] = world.New(cfg); done <- i }(i)
	}
	for i := 0; i < n; i++ {
		<-done
	}
	h0 := ws[0].Hash(ws[0].Root, world.AllStores)
	for i := 1; i < n; i++ {
		if ws[i].Hash(ws[i].Root, world.AllStores) != h0 {
			fmt.Println("HARNESS-NONDETERMINISM: two worlds built from the same config differ")
			os.Exit(2)
		}
	}
	return ws
}

func main() {
	if len(os.Args) < 2 {
		fmt.Println("usage: amc check <id> [--tier t] | replay <file> | list")
		os.Exit(2)
	}
	switch os.Args[1] {
	case "list":
		var ids []string
		for id := range props.Registry {
			ids = append(ids, id)
		}
		sort.Strings(ids)
		for _, id := range ids {
			fmt.Println(id, props.Registry[id].Title)
		}
	case "check":
		os.Exit(check(os.Args[2:]))
	case "replay":
		os.Exit(replay(os.Args[2:]))
	default:
		fmt.Println("unknown command")
		os.Exit(2)
	}
}

func check(args []string) int {
	fs := flag.NewFlagSet("check", flag.ExitOnError)
	tier := fs.String("tier", "", "quick|thorough")
	workers := fs.Int("workers", 0, "number of worker worlds")
	secs := fs.Int("time", 0, "wall-clock budget in seconds for exploration")
	only := fs.String("scenario", "", "run only the scenario with this name")
	prof := fs.String("cpuprofile", "", "write cpu profile")
	if len(args) < 1 {
		fmt.Println("usage: amc check <id>")
		return 2
	}
	id := args[0]
	fs.Parse(args[1:])
	if *tier == "" {
		*tier = os.Getenv("VERIF_TIER")
	}
	if *tier == "" {
		*tier = "quick"
	}
	seed := int64(0)
	if s := os.Getenv("VERIF_SEED"); s != "" {
		seed, _ = strconv.ParseInt(s, 10, 64)
	}
	p, ok := props.Registry[id]
	if !ok {
		fmt.Println("unknown property", id)
		return 2
	}
	if *workers == 0 {
		*workers = runtime.NumCPU()
		if *workers > 16 {
			*workers = 16
		}
	}
	if *secs == 0 {
		if *tier == "thorough" {
			*secs = 1500
		} else {
			*secs = 200
		}
	}
	if *prof != "" {
		f, _ := os.Create(*prof)
		pprof.StartCPUProfile(f)
		defer pprof.StopCPUProfile()
	}
	if os.Getenv("GOGC") == "" {
		debug.SetGCPercent(400)
	}
	t0 := time.Now()
	known := loadKnown()
	scs := p.Scenarios(*tier)
	if *only != "" {
		var f []*engine.Scenario
		for _, sc := range scs {
			if sc.Name == *only {
				f = append(f, sc)
			}
		}
		scs = f
	}
	var reports []*engine.Report
	var totalStates, totalTrans int64
	exhaustive := true
	violations, nondet := 0, 0
	knownHits := map[string]string{}
	var vioLines []string
	vacuous := []string{}
	hardDeadline := t0.Add(time.Duration(*secs) * time.Second)
	for i, sc := range scs {
		remaining := time.Until(hardDeadline)
		share := remaining / time.Duration(len(scs)-i)
		if share < 2*time.Second {
			share = 2 * time.Second
		}
		worlds := buildWorlds(sc.Cfg, *workers)
		rep := engine.Run(sc, worlds, time.Now().Add(share), seed)
		reports = append(reports, rep)
		totalStates += rep.States
		totalTrans += rep.Transitions
		if !rep.Exhaustive {
			exhaustive = false
		}
		fmt.Printf("[%s] scenario=%s states=%d transitions=%d rejected=%d exhaustive=%v wall=%.1fs\n", id, rep.Scenario, rep.States, rep.Transitions, rep.Rejected, rep.Exhaustive, rep.WallS)
		for _, req := range sc.Required {
			if rep.Counters[req] == 0 && rep.Exhaustive {
				vacuous = append(vacuous, sc.Name+":"+req)
			}
		}
		for fi, fr := range rep.Fails() {
			if k := matchKnown(known, id, fr.F); k != nil {
				if _, seen := knownHits[k.ID]; !seen {
					knownHits[k.ID] = fmt.Sprintf("KNOWN-FINDING: property=%s %s [%s; witness: %s]", id, k.What, k.ID, traceLine(fr.Seed, fr.Trace))
				}
				continue
			}
			// unexplained: replay twice on fresh worlds before reporting
			ok1, h1 := true, [32]byte{}
			ok2, h2 := true, [32]byte{}
			if !p.NoReproduce {
				ok1, h1 = reproduce(sc, fr)
				ok2, h2 = reproduce(sc, fr)
			}
			if !ok1 || !ok2 || h1 != h2 {
				// not reported as a violation (nothing that fails only sometimes is believed); the run ends with exit 2 unless
				// another failure of this run reproduces
				fmt.Printf("HARNESS-NONDETERMINISM: failure %s/%s did not reproduce identically on replay (%v %v)\n", fr.F.Oracle, fr.F.Cause, ok1, ok2)
				nondet++
				continue
			}
			name := fmt.Sprintf("%s-%s-%s-%d.json", id, sc.Name, sanitize(fr.F.Oracle+"-"+fr.F.Cause), fi)
			path, err := engine.WriteReplay(filepath.Join(outDir(), "replays"), engine.ReplayFile{
				Property: id, Scenario: sc.Name, Tier: *tier, Seed: fr.Seed, Ops: fr.Trace, Failure: fr.F, Human: traceLine(fr.Seed, fr.Trace),
			}, name)
			if err != nil {
				fmt.Println("HARNESS: cannot write replay:", err)
				return 2
			}
			violations++
			vioLines = append(vioLines, fmt.Sprintf("VIOLATION property=%s replay=%s", id, path))
			fmt.Printf("  violation oracle=%s cause=%s count=%d\n    %s\n    trace: %s\n", fr.F.Oracle, fr.F.Cause, fr.Count, fr.F.Msg, traceLine(fr.Seed, fr.Trace))
		}
	}
	var extraCov map[string]any
	if p.Extra != nil {
		fails, cov := p.Extra(*tier)
		extraCov = cov
		for fi, f := range fails {
			if k := matchKnown(known, id, f); k != nil {
				if _, seen := knownHits[k.ID]; !seen {
					knownHits[k.ID] = fmt.Sprintf("KNOWN-FINDING: property=%s %s [%s]", id, k.What, k.ID)
				}
				continue
			}
			name := fmt.Sprintf("%s-extra-%s-%d.json", id, sanitize(f.Oracle+"-"+f.Cause), fi)
			path, _ := engine.WriteReplay(filepath.Join(outDir(), "replays"), engine.ReplayFile{Property: id, Scenario: "extra", Tier: *tier, Failure: f, Human: f.Msg}, name)
			violations++
			vioLines = append(vioLines, fmt.Sprintf("VIOLATION property=%s replay=%s", id, path))
			fmt.Printf("  violation oracle=%s cause=%s\n    %s\n", f.Oracle, f.Cause, f.Msg)
		}
	}
	var ids []string
	for k := range knownHits {
		ids = append(ids, k)
	}
	sort.Strings(ids)
	for _, k := range ids {
		fmt.Println(knownHits[k])
	}
	wall := time.Since(t0).Seconds()
	writeEvidence(id, *tier, seed, p, reports, totalStates, totalTrans, exhaustive, violations, ids, wall, extraCov)
	if violations > 0 {
		for _, l := range vioLines {
			fmt.Println(l)
		}
		return 1
	}
	if nondet > 0 {
		return 2
	}
	if len(vacuous) > 0 {
		fmt.Printf("VACUOUS: required coverage counters are zero: %s\n", strings.Join(vacuous, ", "))
		return 2
	}
	fmt.Printf("OK property=%s tier=%s states=%d transitions=%d exhaustive=%v known_findings=%d wall=%.1fs\n", id, *tier, totalStates, totalTrans, exhaustive, len(ids), wall)
	return 0
}

func sanitize(s string) string {
	var b strings.Builder
	for _, r := range s {
		if (r >= 'a' && r <= 'z') || (r >= 'A' && r <= 'Z') || (r >= '0' && r <= '9') || r == '-' || r == '_' {
			b.WriteRune(r)
		} else {
			b.WriteRune('_')
		}
	}
	return b.String()
}

func traceLine(seed int, t []world.Op) string {
	parts := make([]string, len(t))
	for i, o := range t {
		parts[i] = o.String()
	}
	return fmt.Sprintf("seed%d: %s", seed, strings.Join(parts, " ; "))
}

func reproduce(sc *engine.Scenario, r *engine.FailRec) (bool, [32]byte) {
	w := world.New(sc.Cfg)
	last, _, h := engine.Replay(sc, w, r.Seed, r.Trace, false)
	for _, f := range last {
		if f.Oracle == r.F.Oracle && f.Cause == r.F.Cause {
			return true, h
		}
	}
	return false, h
}

func writeEvidence(id, tier string, seed int64, p *props.Property, reps []*engine.Report, states, trans int64, exhaustive bool, violations int, known []string, wall float64, extra map[string]any) {
	var samples []any
	counters := map[string]int64{}
	for _, r := range reps {
		for _, s := range r.Samples {
			if len(samples) < 12 {
				samples = append(samples, r.Scenario+" | "+s)
			}
		}
		for k, v := range r.Counters {
			counters[r.Scenario+"/"+k] = v
		}
	}
	if len(samples) == 0 {
		samples = append(samples, "(no trace samples: every scenario had depth 0)")
	}
	cov := map[string]any{
		"states":                        states,
		"transitions":                   trans,
		"traces_validated_against_impl": trans,
		"samples":                       samples,
		"exhaustive":                    exhaustive,
		"scenarios":                     reps,
		"counters":                      counters,
		"known_findings_matched":        known,
		"explanation": "Explicit-state search of the implementation itself: every transition is one execution of the real x/alliance entry point (msg server, " +
			"slash hook, EndBlocker, governance handler) on a cache branch of the real multistore of a real App; states are deduplicated on SHA-256 of the full KV content " +
			"of the stores plus header time/height, reference-model digest and remaining budgets. There is no separate model, so every explored transition is a trace " +
			"validated against the implementation. 'exhaustive' is true when every scenario enumerated its bounded space completely (no wall-clock cut).",
	}
	if states < 1 {
		cov["states"] = 1
	}
	if trans < 1 {
		cov["transitions"] = 1
	}
	for k, v := range extra {
		cov[k] = v
	}
	ev := map[string]any{
		"property_id": id,
		"tier":        tier,
		"seed":        seed,
		"level":       "model_checking",
		"coverage":    cov,
		"assumptions": p.Assumptions,
		"wall_s":      wall,
		"violations":  violations,
	}
	dir := filepath.Join(outDir(), "evidence")
	os.MkdirAll(dir, 0o755)
	b, _ := json.MarshalIndent(ev, "", " ")
	if err := os.WriteFile(filepath.Join(dir, id+".json"), b, 0o644); err != nil {
		fmt.Println("HARNESS: cannot write evidence:", err)
		os.Exit(2)
	}
}

func replay(args []string) int {
	if len(args) < 1 {
		fmt.Println("usage: amc replay <file>")
		return 2
	}
	b, err := os.ReadFile(args[0])
	if err != nil {
		fmt.Println(err)
		return 2
	}
	var rf engine.ReplayFile
	if err := json.Unmarshal(b, &rf); err != nil {
		fmt.Println(err)
		return 2
	}
	p, ok := props.Registry[rf.Property]
	if !ok {
		fmt.Println("unknown property", rf.Property)
		return 2
	}
	tier := rf.Tier
	if tier == "" {
		tier = "quick"
	}
	for _, sc := range p.Scenarios(tier) {
		if sc.Name != rf.Scenario {
			continue
		}
		w := world.New(sc.Cfg)
		fmt.Printf("replaying %s scenario=%s seed=%d (%d ops)\n", rf.Property, rf.Scenario, rf.Seed, len(rf.Ops))
		last, _, _ := engine.Replay(sc, w, rf.Seed, rf.Ops, true)
		for _, f := range last {
			if f.Oracle == rf.Failure.Oracle && f.Cause == rf.Failure.Cause {
				fmt.Printf("VIOLATION property=%s replay=%s\n", rf.Property, args[0])
				return 1
			}
		}
		fmt.Println("recorded failure did not occur on this tree")
		return 0
	}
	fmt.Println("scenario not found:", rf.Scenario)
	return 2
}
