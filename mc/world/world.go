// Package world builds a deterministic, real alliance App and exposes the
// transitions and observers used by the explorer. Nothing here is a model of
// x/alliance: every transition calls the real handlers of the real modules.
package world

import (
	"encoding/json"
	"fmt"
	codectypes "github.com/cosmos/cosmos-sdk/codec/types"
	"github.com/cosmos/cosmos-sdk/crypto/keys/ed25519"
	"github.com/cosmos/cosmos-sdk/types/address"
	stakingkeeper "github.com/cosmos/cosmos-sdk/x/staking/keeper"
	"strings"
	"time"

	"cosmossdk.io/log"
	"cosmossdk.io/math"
	abci "github.com/cometbft/cometbft/abci/types"
	cmted "github.com/cometbft/cometbft/crypto/ed25519"
	cmtproto "github.com/cometbft/cometbft/proto/tendermint/types"
	cmttypes "github.com/cometbft/cometbft/types"
	dbm "github.com/cosmos/cosmos-db"
	"github.com/cosmos/cosmos-sdk/baseapp"
	"github.com/cosmos/cosmos-sdk/crypto/keys/secp256k1"
	simtestutil "github.com/cosmos/cosmos-sdk/testutil/sims"
	sdk "github.com/cosmos/cosmos-sdk/types"
	authtypes "github.com/cosmos/cosmos-sdk/x/auth/types"
	banktypes "github.com/cosmos/cosmos-sdk/x/bank/types"
	distrtypes "github.com/cosmos/cosmos-sdk/x/distribution/types"
	minttypes "github.com/cosmos/cosmos-sdk/x/mint/types"
	stakingtypes "github.com/cosmos/cosmos-sdk/x/staking/types"

	allianceapp "github.com/terra-money/alliance/app"
	alliancetypes "github.com/terra-money/alliance/x/alliance/types"
)

// Unit is the time lattice unit (DESIGN §3).
const Unit = 10 * time.Second

// Epoch is the fixed genesis time of every world.
var Epoch = time.Unix(1700000000, 0).UTC()

const ChainID = "verif-1"

// AssetCfg describes one alliance asset placed in the alliance genesis.
type AssetCfg struct {
	Denom          string
	Weight         string
	Min, Max       string
	TakeRate       string
	ChangeRate     string        // "" => 1
	ChangeInterval time.Duration // 0 => no decay
	StartOffset    time.Duration // RewardStartTime = Epoch + StartOffset
}

// Config fixes everything a world is built from. Two worlds with equal Config
// are byte-identical (asserted by the engine at start-up).
type Config struct {
	NVals, NDels int
	// UpperCaseValidator: an extra validator (index NVals) registered through x/staking's MsgCreateValidator under the
	// upper-case spelling of its operator address (module-only worlds)
	UpperCaseValidator bool
	UnbondingTime      time.Duration
	TakeInterval       time.Duration
	RewardDelay        time.Duration
	LastTakeClaim      time.Duration // offset from Epoch; <0 => zero time
	Assets             []AssetCfg
	DelFunds           map[string]string // per delegator, per denom
	NativeStake        int64             // genesis native tokens per validator
	CommunityTax       string
	MaxValidators      uint32
	FullPipeline       bool     // block boundary = ModuleManager End/BeginBlock, slash = StakingKeeper.Slash
	ExtraNativeDel     []int64  // additional genesis native stake multipliers (unused when nil)
	ExtraDenoms        []string // denoms whose balances snapshots read even when no asset record / queue entry names them
}

// DefaultConfig is the module-only world used by most properties.
func DefaultConfig() Config {
	return Config{
		NVals: 3, NDels: 3,
		UnbondingTime: 3 * Unit,
		TakeInterval:  2 * Unit,
		RewardDelay:   0,
		LastTakeClaim: 0,
		Assets: []AssetCfg{
			{Denom: "aaa", Weight: "1", Min: "0", Max: "5", TakeRate: "0.3"},
			{Denom: "bbb", Weight: "1", Min: "0", Max: "5", TakeRate: "0"},
		},
		DelFunds:      map[string]string{"aaa": "1000000000000000000000000000000000", "bbb": "1000000000000000000000000000000000", "stake": "1000000000000"},
		NativeStake:   1000000,
		CommunityTax:  "0",
		MaxValidators: 100,
	}
}

// World is one real App plus the actors of the scenario.
type World struct {
	App                        *allianceapp.App
	Cfg                        Config
	Vals                       []sdk.ValAddress
	Cons                       []sdk.ConsAddress
	Dels                       []sdk.AccAddress // D0..Dn-1 alliance delegators; also usable as native delegators
	Gen                        sdk.AccAddress   // genesis account that self-bonded every validator (native delegator "N")
	Out                        sdk.AccAddress   // funded outsider (probes, gifts)
	Root                       sdk.Context
	Log                        *CapLogger
	Auth                       string
	ModAddr, PoolAddr, FeeAddr sdk.AccAddress
	ExtraDenoms                []string // additional denoms whose balances snapshots should read
}

// CapLogger captures error-level log lines (staking swallows hook errors and only logs them).
type CapLogger struct {
	Errors []string
}

func (l *CapLogger) Info(string, ...any)  {}
func (l *CapLogger) Warn(string, ...any)  {}
func (l *CapLogger) Debug(string, ...any) {}
func (l *CapLogger) Error(msg string, kv ...any) {
	l.Errors = append(l.Errors, msg+" "+fmt.Sprint(kv...))
}
func (l *CapLogger) With(...any) log.Logger { return l }
func (l *CapLogger) Impl() any              { return l }
func (l *CapLogger) Reset()                 { l.Errors = l.Errors[:0] }

// HookError returns the captured "before validator slashed hook" error, if any.
func (l *CapLogger) HookError() string {
	for _, e := range l.Errors {
		if strings.Contains(e, "before validator slashed hook") {
			return e
		}
	}
	return ""
}

func dec(s string) math.LegacyDec {
	if s == "" {
		return math.LegacyOneDec()
	}
	return math.LegacyMustNewDecFromStr(s)
}

func mustInt(s string) math.Int {
	i, ok := math.NewIntFromString(s)
	if !ok {
		panic("bad int " + s)
	}
	return i
}

// New builds a world. It panics on any setup error: a world that cannot be
// built is a harness failure, never a property violation.
func New(cfg Config) *World {
	w := &World{Cfg: cfg, Log: &CapLogger{}, ExtraDenoms: cfg.ExtraDenoms}
	db := dbm.NewMemDB()
	app := allianceapp.New(w.Log, db, nil, true, map[int64]bool{}, allianceapp.DefaultNodeHome, 0, allianceapp.EmptyAppOptions{}, baseapp.SetChainID(ChainID))
	w.App = app
	gen := app.DefaultGenesis()

	// validators: consensus keys from fixed secrets
	var cmtVals []*cmttypes.Validator
	for i := 0; i < cfg.NVals; i++ {
		pk := cmted.GenPrivKeyFromSecret([]byte(fmt.Sprintf("verif-val-%d", i))).PubKey()
		cmtVals = append(cmtVals, cmttypes.NewValidator(pk, 1))
	}
	valSet := cmttypes.NewValidatorSet(cmtVals)

	// accounts: genesis self-bonder, delegators, outsider
	mkAcc := func(secret string) (sdk.AccAddress, authtypes.GenesisAccount) {
		pk := secp256k1.GenPrivKeyFromSecret([]byte(secret)).PubKey()
		addr := sdk.AccAddress(pk.Address())
		return addr, authtypes.NewBaseAccount(addr, pk, 0, 0)
	}
	var genAccs []authtypes.GenesisAccount
	var balances []banktypes.Balance
	funds := sdk.NewCoins()
	for d, a := range cfg.DelFunds {
		funds = funds.Add(sdk.NewCoin(d, mustInt(a)))
	}
	gaddr, gacc := mkAcc("verif-genesis")
	w.Gen = gaddr
	genAccs = append(genAccs, gacc)
	balances = append(balances, banktypes.Balance{Address: gaddr.String(), Coins: sdk.NewCoins(sdk.NewCoin("stake", math.NewInt(1000000000000)))})
	for i := 0; i < cfg.NDels; i++ {
		a, acc := mkAcc(fmt.Sprintf("verif-del-%d", i))
		if i == 1 {
			// D1 has a 32-byte address (as contracts, interchain accounts and group policies have): store keys carry a
			// length byte per address, and every parser of them must honour it
			a = sdk.AccAddress(address.Module("verif-del", []byte{1}))
			acc = authtypes.NewBaseAccountWithAddress(a)
		}
		w.Dels = append(w.Dels, a)
		genAccs = append(genAccs, acc)
		balances = append(balances, banktypes.Balance{Address: a.String(), Coins: funds})
	}
	oaddr, oacc := mkAcc("verif-outsider")
	w.Out = oaddr
	genAccs = append(genAccs, oacc)
	balances = append(balances, banktypes.Balance{Address: oaddr.String(), Coins: funds})

	gen, err := simtestutil.GenesisStateWithValSet(app.AppCodec(), gen, valSet, genAccs, balances...)
	must(err)

	cdc := app.AppCodec()
	// bank: GenesisStateWithValSet funds the bonded pool for one validator only.
	var bankGen banktypes.GenesisState
	cdc.MustUnmarshalJSON(gen[banktypes.ModuleName], &bankGen)
	bonded := authtypes.NewModuleAddress(stakingtypes.BondedPoolName).String()
	total := math.NewInt(cfg.NativeStake).MulRaw(int64(cfg.NVals))
	for i := range bankGen.Balances {
		if bankGen.Balances[i].Address == bonded {
			old := bankGen.Balances[i].Coins.AmountOf("stake")
			bankGen.Balances[i].Coins = sdk.NewCoins(sdk.NewCoin("stake", total))
			bankGen.Supply = bankGen.Supply.Sub(sdk.NewCoin("stake", old)).Add(sdk.NewCoin("stake", total))
			// GenesisStateWithValSet counted one bond per delegation in supply but funded one; recompute supply exactly below
		}
	}
	sum := sdk.NewCoins()
	for _, b := range bankGen.Balances {
		sum = sum.Add(b.Coins...)
	}
	bankGen.Supply = sum
	gen[banktypes.ModuleName] = cdc.MustMarshalJSON(&bankGen)

	// staking: tokens per validator, params
	var stGen stakingtypes.GenesisState
	cdc.MustUnmarshalJSON(gen[stakingtypes.ModuleName], &stGen)
	for i := range stGen.Validators {
		stGen.Validators[i].Tokens = math.NewInt(cfg.NativeStake)
		stGen.Validators[i].DelegatorShares = math.LegacyNewDec(cfg.NativeStake)
	}
	for i := range stGen.Delegations {
		stGen.Delegations[i].Shares = math.LegacyNewDec(cfg.NativeStake)
	}
	stGen.Params.UnbondingTime = cfg.UnbondingTime
	stGen.Params.MaxValidators = cfg.MaxValidators
	gen[stakingtypes.ModuleName] = cdc.MustMarshalJSON(&stGen)

	// mint: zero inflation (as app.SetupWithGenesisValSet does) so net supply has a closed form
	var mintGen minttypes.GenesisState
	cdc.MustUnmarshalJSON(gen[minttypes.ModuleName], &mintGen)
	mintGen.Params.InflationMin = math.LegacyZeroDec()
	mintGen.Params.InflationMax = math.LegacyZeroDec()
	mintGen.Params.InflationRateChange = math.LegacyZeroDec()
	mintGen.Minter.Inflation = math.LegacyZeroDec()
	gen[minttypes.ModuleName] = cdc.MustMarshalJSON(&mintGen)

	// distribution: community tax
	var dGen distrtypes.GenesisState
	cdc.MustUnmarshalJSON(gen[distrtypes.ModuleName], &dGen)
	dGen.Params.CommunityTax = dec(cfg.CommunityTax)
	if cfg.CommunityTax == "" {
		dGen.Params.CommunityTax = math.LegacyZeroDec()
	}
	gen[distrtypes.ModuleName] = cdc.MustMarshalJSON(&dGen)

	// alliance: params and assets
	var aGen alliancetypes.GenesisState
	cdc.MustUnmarshalJSON(gen[alliancetypes.ModuleName], &aGen)
	aGen.Params.RewardDelayTime = cfg.RewardDelay
	aGen.Params.TakeRateClaimInterval = cfg.TakeInterval
	if cfg.LastTakeClaim >= 0 {
		aGen.Params.LastTakeRateClaimTime = Epoch.Add(cfg.LastTakeClaim)
	} else {
		aGen.Params.LastTakeRateClaimTime = time.Time{}
	}
	aGen.Assets = nil
	for _, a := range cfg.Assets {
		start := Epoch.Add(a.StartOffset)
		as := alliancetypes.NewAllianceAsset(a.Denom, dec(a.Weight), dec(a.Min), dec(a.Max), dec(a.TakeRate), start)
		as.RewardChangeRate = dec(a.ChangeRate)
		as.RewardChangeInterval = a.ChangeInterval
		aGen.Assets = append(aGen.Assets, as)
	}
	gen[alliancetypes.ModuleName] = cdc.MustMarshalJSON(&aGen)

	stateBytes, err := json.Marshal(gen)
	must(err)
	_, err = app.InitChain(&abci.RequestInitChain{
		ChainId:         ChainID,
		Time:            Epoch,
		Validators:      []abci.ValidatorUpdate{},
		ConsensusParams: simtestutil.DefaultConsensusParams,
		AppStateBytes:   stateBytes,
	})
	must(err)
	_, err = app.FinalizeBlock(&abci.RequestFinalizeBlock{
		Height:             1,
		Time:               Epoch,
		NextValidatorsHash: valSet.Hash(),
	})
	must(err)
	_, err = app.Commit()
	must(err)

	hdr := cmtproto.Header{ChainID: ChainID, Height: 2, Time: Epoch.Add(Unit)}
	ctx := app.BaseApp.NewUncachedContext(false, hdr)
	ctx = ctx.WithBlockGasMeter(nil)
	w.Root = ctx

	// validator addresses in the order of the secrets
	for i := 0; i < cfg.NVals; i++ {
		pk := cmted.GenPrivKeyFromSecret([]byte(fmt.Sprintf("verif-val-%d", i))).PubKey()
		va := sdk.ValAddress(pk.Address())
		w.Vals = append(w.Vals, va)
		w.Cons = append(w.Cons, sdk.ConsAddress(pk.Address()))
		// genesis-bonded validators have no signing info; BeginBlock would fail without it.
		must(app.SlashingKeeper.Hooks().AfterValidatorBonded(ctx, sdk.ConsAddress(pk.Address()), va))
	}
	if cfg.UpperCaseValidator {
		// one more validator, registered through the x/staking message server under the all-upper-case spelling of its operator
		// address: x/staking keeps the message text as OperatorAddress (bech32 is case-insensitive), every byte-keyed index
		// agrees with the lower-case spelling, string comparisons do not
		pk := ed25519.GenPrivKeyFromSecret([]byte("verif-val-upper")).PubKey()
		va := sdk.ValAddress(w.Out)
		pkAny, err := codectypes.NewAnyWithValue(pk)
		must(err)
		msg := &stakingtypes.MsgCreateValidator{
			Description:       stakingtypes.NewDescription("upper", "", "", "", ""),
			Commission:        stakingtypes.NewCommissionRates(math.LegacyZeroDec(), math.LegacyOneDec(), math.LegacyOneDec()),
			MinSelfDelegation: math.OneInt(),
			ValidatorAddress:  strings.ToUpper(va.String()),
			Pubkey:            pkAny,
			Value:             sdk.NewCoin("stake", math.NewInt(cfg.NativeStake)),
		}
		_, err = stakingkeeper.NewMsgServerImpl(app.StakingKeeper).CreateValidator(ctx, msg)
		must(err)
		w.Vals = append(w.Vals, va)
		w.Cons = append(w.Cons, sdk.ConsAddress(pk.Address()))
	}
	w.Auth = app.AllianceKeeper.GetAuthority()
	w.ModAddr = authtypes.NewModuleAddress(alliancetypes.ModuleName)
	w.PoolAddr = authtypes.NewModuleAddress(alliancetypes.RewardsPoolName)
	w.FeeAddr = authtypes.NewModuleAddress(authtypes.FeeCollectorName)
	// The alliance hook AfterValidatorBonded above did not run (we called the slashing hook only);
	// start from a clean rebalance flag so that roots are identical and quiet.
	app.AllianceKeeper.ConsumeAssetRebalanceEvent(ctx)
	if cfg.FullPipeline {
		// Open block 2 with the real BeginBlock so that distribution/slashing bookkeeping starts consistently.
		c := ctx.WithVoteInfos(w.Votes(ctx, nil))
		_, err := app.ModuleManager.BeginBlock(c)
		must(err)
	}
	return w
}

func must(err error) {
	if err != nil {
		panic(fmt.Sprintf("HARNESS: %v", err))
	}
}

// Votes builds VoteInfos for the currently bonded validators. absent lists validator indexes that did not sign.
func (w *World) Votes(ctx sdk.Context, absent map[int]bool) []abci.VoteInfo {
	var votes []abci.VoteInfo
	for i, va := range w.Vals {
		v, err := w.App.StakingKeeper.GetValidator(ctx, va)
		if err != nil || !v.IsBonded() {
			continue
		}
		flag := cmtproto.BlockIDFlagCommit
		if absent[i] {
			flag = cmtproto.BlockIDFlagAbsent
		}
		votes = append(votes, abci.VoteInfo{
			Validator:   abci.Validator{Address: w.Cons[i], Power: v.ConsensusPower(sdk.DefaultPowerReduction)},
			BlockIdFlag: flag,
		})
	}
	return votes
}
