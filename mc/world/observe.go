package world

import (
	"bytes"
	"crypto/sha256"
	"encoding/binary"
	"fmt"
	"math/big"
	"sort"
	"time"

	"cosmossdk.io/math"
	sdk "github.com/cosmos/cosmos-sdk/types"

	"github.com/terra-money/alliance/x/alliance/types"
)

// AllStores is the default set of stores that make up a state's identity.
var AllStores = []string{"alliance", "bank", "staking", "distribution", "slashing", "mint", "acc"}

// ModuleStores is the identity for module-only worlds: no transition of those worlds reaches x/slashing or x/mint
// state (no BeginBlock, no staking EndBlock), so leaving them out merges nothing that differs.
var ModuleStores = []string{"alliance", "bank", "staking", "distribution", "acc"}

// Hash is the canonical identity of a concrete state: every key and value of the listed stores plus header time/height.
func (w *World) Hash(ctx sdk.Context, stores []string) [32]byte {
	h := sha256.New()
	var lenbuf [8]byte
	for _, name := range stores {
		st := ctx.KVStore(w.App.GetKey(name))
		it := st.Iterator(nil, nil)
		h.Write([]byte(name))
		for ; it.Valid(); it.Next() {
			k, v := it.Key(), it.Value()
			binary.BigEndian.PutUint32(lenbuf[:4], uint32(len(k)))
			binary.BigEndian.PutUint32(lenbuf[4:], uint32(len(v)))
			h.Write(lenbuf[:])
			h.Write(k)
			h.Write(v)
		}
		it.Close()
	}
	binary.BigEndian.PutUint64(lenbuf[:], uint64(ctx.BlockTime().UnixNano()))
	h.Write(lenbuf[:])
	binary.BigEndian.PutUint64(lenbuf[:], uint64(ctx.BlockHeight()))
	h.Write(lenbuf[:])
	var r [32]byte
	copy(r[:], h.Sum(nil))
	return r
}

// Dump returns the raw KV pairs of a store (used by C19 byte comparison and diagnostics).
func (w *World) Dump(ctx sdk.Context, store string) [][2][]byte {
	st := ctx.KVStore(w.App.GetKey(store))
	it := st.Iterator(nil, nil)
	defer it.Close()
	var out [][2][]byte
	for ; it.Valid(); it.Next() {
		out = append(out, [2][]byte{append([]byte{}, it.Key()...), append([]byte{}, it.Value()...)})
	}
	return out
}

var e18 = new(big.Int).Exp(big.NewInt(10), big.NewInt(18), nil)

// Rat converts a LegacyDec exactly.
func Rat(d math.LegacyDec) *big.Rat {
	if d.IsNil() {
		return new(big.Rat)
	}
	return new(big.Rat).SetFrac(d.BigInt(), e18)
}

func RatInt(i math.Int) *big.Rat {
	if i.IsNil() {
		return new(big.Rat)
	}
	return new(big.Rat).SetInt(i.BigInt())
}

func RatStr(s string) *big.Rat {
	r, ok := new(big.Rat).SetString(s)
	if !ok {
		panic("bad rat " + s)
	}
	return r
}

// Floor of a non-negative rational.
func Floor(r *big.Rat) *big.Int {
	q := new(big.Int).Quo(r.Num(), r.Denom())
	if r.Sign() < 0 && new(big.Int).Mul(q, r.Denom()).Cmp(r.Num()) != 0 {
		q.Sub(q, big.NewInt(1))
	}
	return q
}

func RatF(r *big.Rat) string {
	if r == nil {
		return "nil"
	}
	return r.FloatString(6)
}

// Pos is one delegation with its exact (rational, un-rounded) redeemable value and the value the module reports.
type Pos struct {
	D, V     int
	Denom    string
	Shares   *big.Rat
	Value    *big.Rat // exact: shares/D_v * (s_v/S * T)
	Reported math.Int // module's own GetDelegationTokens
	Raw      types.Delegation
}

func (p Pos) Key() string { return fmt.Sprintf("d%d/v%d/%s", p.D, p.V, p.Denom) }

// Unb is one pending unbonding entry as stored in the 0x24 queue.
type Unb struct {
	D, V       int
	Denom      string
	Amt        math.Int
	Completion time.Time
	Slot       int // position within its bucket
	BucketD    int // delegator of the bucket key (must equal D)
}

func (u Unb) Key() string {
	return fmt.Sprintf("d%d/v%d/%s@%d#%d", u.D, u.V, u.Denom, u.Completion.UnixNano(), u.Slot)
}

// UnbIdx is one key of the 0x32 per-validator index.
type UnbIdx struct {
	V, D       int
	Denom      string
	Completion time.Time
}

// Redel is one record of the 0x22 primary redelegation store.
type Redel struct {
	D, Src, Dst int
	Denom       string
	Amt         math.Int
	Completion  time.Time
}

// RedelIdx is one key of the 0x31 index.
type RedelIdx struct {
	Src, Dst, D int
	Denom       string
	Completion  time.Time
}

type ValSnap struct {
	ValShares map[string]*big.Rat
	DelShares map[string]*big.Rat
	Tokens    map[string]*big.Rat // exact: s_v/S*T
	Info      types.AllianceValidatorInfo
	Present   bool
}

// Snap is a decoded view of the alliance state and the balances the properties talk about.
type Snap struct {
	Time           time.Time
	Height         int64
	Assets         map[string]types.AllianceAsset
	Denoms         []string // asset denoms in store order
	Vals           []ValSnap
	Pos            []Pos
	Unb            []Unb
	UnbIdx         []UnbIdx
	Redels         []Redel
	RedelIdx       []RedelIdx
	RedelQ         []Redel // entries of the 0x23 queue
	Flag           bool
	Params         types.Params
	Custody        sdk.Coins
	Pool           sdk.Coins
	Fee            sdk.Coins
	DelBal         []sdk.Coins
	UnbondingTime  time.Duration
	QueryPanic     string // non-empty when the module's balance function panicked while this state was decoded
	NSnapshots     int
	AllianceDigest [32]byte
}

func (w *World) valIndex(addr string) int {
	for i, v := range w.Vals {
		if v.String() == addr {
			return i
		}
	}
	return -1
}

func (w *World) valIndexBytes(b []byte) int {
	for i, v := range w.Vals {
		if bytes.Equal(v, b) {
			return i
		}
	}
	return -1
}

func (w *World) delIndex(addr string) int {
	for i, d := range w.Dels {
		if d.String() == addr {
			return i
		}
	}
	if w.Out.String() == addr {
		return -1
	}
	return -2
}

func (w *World) delIndexBytes(b []byte) int {
	for i, d := range w.Dels {
		if bytes.Equal(d, b) {
			return i
		}
	}
	if bytes.Equal(w.Out, b) {
		return -1
	}
	return -2
}

func readLP(key []byte, off int) ([]byte, int) {
	n := int(key[off])
	return key[off+1 : off+1+n], off + 1 + n
}

// Snapshot decodes the state in ONE raw pass over the alliance store (an enumeration of the primary records that is
// independent of the keeper's iterators and query helpers) and hashes the store content on the way.
func (w *World) Snapshot(ctx sdk.Context) *Snap {
	cdc := w.App.AppCodec()
	s := &Snap{Time: ctx.BlockTime(), Height: ctx.BlockHeight(), Assets: map[string]types.AllianceAsset{}}
	s.Vals = make([]ValSnap, len(w.Vals))
	for i := range s.Vals {
		s.Vals[i] = ValSnap{ValShares: map[string]*big.Rat{}, DelShares: map[string]*big.Rat{}, Tokens: map[string]*big.Rat{}}
	}
	var dels []types.Delegation
	h := sha256.New()
	var lenbuf [8]byte
	st := ctx.KVStore(w.App.GetKey("alliance"))
	it := st.Iterator(nil, nil)
	for ; it.Valid(); it.Next() {
		key, val := it.Key(), it.Value()
		binary.BigEndian.PutUint32(lenbuf[:4], uint32(len(key)))
		binary.BigEndian.PutUint32(lenbuf[4:], uint32(len(val)))
		h.Write(lenbuf[:])
		h.Write(key)
		h.Write(val)
		switch key[0] {
		case 0x02:
			cdc.MustUnmarshal(val, &s.Params)
		case 0x11:
			var a types.AllianceAsset
			cdc.MustUnmarshal(val, &a)
			s.Assets[a.Denom] = a
			s.Denoms = append(s.Denoms, a.Denom)
		case 0x12:
			var info types.AllianceValidatorInfo
			cdc.MustUnmarshal(val, &info)
			vi := w.valIndexBytes(key[2:])
			if vi < 0 {
				continue
			}
			vs := &s.Vals[vi]
			vs.Info, vs.Present = info, true
			for _, c := range info.ValidatorShares {
				vs.ValShares[c.Denom] = Rat(c.Amount)
			}
			for _, c := range info.TotalDelegatorShares {
				vs.DelShares[c.Denom] = Rat(c.Amount)
			}
		case 0x13:
			s.Flag = true
		case 0x14:
			s.NSnapshots++
		case 0x21:
			var d types.Delegation
			cdc.MustUnmarshal(val, &d)
			dels = append(dels, d)
		case 0x22:
			var r types.Redelegation
			cdc.MustUnmarshal(val, &r)
			c := types.ParseRedelegationKeyForCompletionTime(key)
			s.Redels = append(s.Redels, Redel{D: w.delIndex(r.DelegatorAddress), Src: w.valIndex(r.SrcValidatorAddress), Dst: w.valIndex(r.DstValidatorAddress), Denom: r.Balance.Denom, Amt: r.Balance.Amount, Completion: c})
		case 0x23:
			t, err := sdk.ParseTimeBytes(key[1:])
			must(err)
			var q types.QueuedRedelegation
			cdc.MustUnmarshal(val, &q)
			for _, r := range q.Entries {
				s.RedelQ = append(s.RedelQ, Redel{D: w.delIndex(r.DelegatorAddress), Src: w.valIndex(r.SrcValidatorAddress), Dst: w.valIndex(r.DstValidatorAddress), Denom: r.Balance.Denom, Amt: r.Balance.Amount, Completion: t})
			}
		case 0x24:
			tb, off := readLP(key, 1)
			ab, _ := readLP(key, off)
			c, err := sdk.ParseTimeBytes(tb)
			must(err)
			var u types.QueuedUndelegation
			cdc.MustUnmarshal(val, &u)
			for i, e := range u.Entries {
				s.Unb = append(s.Unb, Unb{D: w.delIndex(e.DelegatorAddress), V: w.valIndex(e.ValidatorAddress), Denom: e.Balance.Denom, Amt: e.Balance.Amount, Completion: c, Slot: i, BucketD: w.delIndexBytes(ab)})
			}
		case 0x31:
			off := 1
			var sb, tb, db, dvb, ab []byte
			sb, off = readLP(key, off)
			tb, off = readLP(key, off)
			db, off = readLP(key, off)
			dvb, off = readLP(key, off)
			ab, _ = readLP(key, off)
			t, err := sdk.ParseTimeBytes(tb)
			must(err)
			s.RedelIdx = append(s.RedelIdx, RedelIdx{Src: w.valIndexBytes(sb), Dst: w.valIndexBytes(dvb), D: w.delIndexBytes(ab), Denom: string(db[:len(db)-1]), Completion: t})
		case 0x32:
			off := 1
			var vb, tb, db, ab []byte
			vb, off = readLP(key, off)
			tb, off = readLP(key, off)
			db, off = readLP(key, off)
			ab, _ = readLP(key, off)
			t, err := sdk.ParseTimeBytes(tb)
			must(err)
			s.UnbIdx = append(s.UnbIdx, UnbIdx{V: w.valIndexBytes(vb), D: w.delIndexBytes(ab), Denom: string(db[:len(db)-1]), Completion: t})
		}
	}
	it.Close()
	copy(s.AllianceDigest[:], h.Sum(nil))
	// exact validator token values
	for i := range s.Vals {
		vs := &s.Vals[i]
		for d, sh := range vs.ValShares {
			a, ok := s.Assets[d]
			if !ok {
				continue
			}
			S := Rat(a.TotalValidatorShares)
			T := RatInt(a.TotalTokens)
			if S.Sign() == 0 {
				vs.Tokens[d] = T
			} else {
				vs.Tokens[d] = new(big.Rat).Mul(new(big.Rat).Quo(sh, S), T)
			}
		}
	}
	for _, d := range dels {
		p := Pos{D: w.delIndex(d.DelegatorAddress), V: w.valIndex(d.ValidatorAddress), Denom: d.Denom, Shares: Rat(d.Shares), Raw: d}
		p.Value = new(big.Rat)
		if p.V >= 0 {
			vs := s.Vals[p.V]
			if a, ok := s.Assets[d.Denom]; ok {
				vt := vs.Tokens[d.Denom]
				if vt == nil {
					// validator carries no shares of this denom: module formula yields asset total when S==0, else 0
					if a.TotalValidatorShares.IsZero() {
						vt = RatInt(a.TotalTokens)
					} else {
						vt = new(big.Rat)
					}
				}
				ds := vs.DelShares[d.Denom]
				if ds == nil || ds.Sign() == 0 {
					p.Value = new(big.Rat).Set(vt)
				} else {
					p.Value = new(big.Rat).Mul(new(big.Rat).Quo(p.Shares, ds), vt)
				}
				info := vs.Info
				if !vs.Present {
					info = types.NewAllianceValidatorInfo()
				}
				// the module's own reported balance (same function the AllianceDelegation query uses)
				func() {
					defer func() {
						if r := recover(); r != nil {
							// the module's own balance function panics in this state (e.g. negative coin amount)
							s.QueryPanic = fmt.Sprintf("GetDelegationTokens(%s/%s/%s): %v", d.DelegatorAddress, d.ValidatorAddress, d.Denom, r)
							p.Reported = math.ZeroInt()
						}
					}()
					p.Reported = types.GetDelegationTokens(d, types.AllianceValidator{AllianceValidatorInfo: &info}, a).Amount
				}()
			}
		}
		if p.Reported.IsNil() {
			p.Reported = math.ZeroInt()
		}
		s.Pos = append(s.Pos, p)
	}
	sort.SliceStable(s.Pos, func(i, j int) bool { return s.Pos[i].Key() < s.Pos[j].Key() })
	// balances: point reads for the denoms the properties talk about
	denoms := append([]string{"stake"}, s.Denoms...)
	for _, u := range s.Unb {
		if _, ok := s.Assets[u.Denom]; !ok {
			dup := false
			for _, d := range denoms {
				if d == u.Denom {
					dup = true
				}
			}
			if !dup {
				denoms = append(denoms, u.Denom)
			}
		}
	}
	for _, x := range w.ExtraDenoms {
		dup := false
		for _, d := range denoms {
			if d == x {
				dup = true
			}
		}
		if !dup {
			denoms = append(denoms, x)
		}
	}
	bal := func(addr sdk.AccAddress) sdk.Coins {
		cs := sdk.Coins{}
		for _, d := range denoms {
			c := w.App.BankKeeper.GetBalance(ctx, addr, d)
			if c.Amount.IsPositive() {
				cs = cs.Add(c)
			}
		}
		return cs
	}
	s.Custody = bal(w.ModAddr)
	s.Pool = bal(w.PoolAddr)
	s.Fee = bal(w.FeeAddr)
	for _, d := range w.Dels {
		s.DelBal = append(s.DelBal, bal(d))
	}
	ut, err := w.App.StakingKeeper.UnbondingTime(ctx)
	must(err)
	s.UnbondingTime = ut
	return s
}

// PosMap indexes positions by key.
func (s *Snap) PosMap() map[string]Pos {
	m := map[string]Pos{}
	for _, p := range s.Pos {
		m[p.Key()] = p
	}
	return m
}

func (s *Snap) FindPos(d, v int, denom string) (Pos, bool) {
	for _, p := range s.Pos {
		if p.D == d && p.V == v && p.Denom == denom {
			return p, true
		}
	}
	return Pos{}, false
}

// UnbTotal sums pending unbonding balances per denom.
func (s *Snap) UnbTotal() map[string]math.Int {
	m := map[string]math.Int{}
	for _, u := range s.Unb {
		if _, ok := m[u.Denom]; !ok {
			m[u.Denom] = math.ZeroInt()
		}
		m[u.Denom] = m[u.Denom].Add(u.Amt)
	}
	return m
}

// Summary renders the decoded state compactly (replay diagnostics).
func (s *Snap) Summary() string {
	var b bytes.Buffer
	fmt.Fprintf(&b, "t=+%s h=%d flag=%v custody=%s fee=%s pool=%s\n", s.Time.Sub(Epoch), s.Height, s.Flag, s.Custody, s.Fee, s.Pool)
	for _, d := range s.Denoms {
		a := s.Assets[d]
		fmt.Fprintf(&b, "    asset %s T=%s S=%s w=%s take=%s\n", d, a.TotalTokens, a.TotalValidatorShares, a.RewardWeight, a.TakeRate)
	}
	for i, v := range s.Vals {
		for d, sh := range v.ValShares {
			ds := v.DelShares[d]
			fmt.Fprintf(&b, "    v%d %s valShares=%s delShares=%s tokens=%s\n", i, d, sh.FloatString(18), RatF18(ds), RatF(v.Tokens[d]))
		}
		for d, ds := range v.DelShares {
			if _, ok := v.ValShares[d]; !ok {
				fmt.Fprintf(&b, "    v%d %s valShares=0 delShares=%s\n", i, d, ds.FloatString(18))
			}
		}
	}
	for _, p := range s.Pos {
		fmt.Fprintf(&b, "    pos %s shares=%s value=%s reported=%s\n", p.Key(), p.Shares.FloatString(18), RatF(p.Value), p.Reported)
	}
	for _, u := range s.Unb {
		fmt.Fprintf(&b, "    unb %s amt=%s\n", u.Key(), u.Amt)
	}
	for _, r := range s.Redels {
		fmt.Fprintf(&b, "    red d%d v%d->v%d %s %s @+%s\n", r.D, r.Src, r.Dst, r.Denom, r.Amt, r.Completion.Sub(Epoch))
	}
	return b.String()
}

func RatF18(r *big.Rat) string {
	if r == nil {
		return "nil"
	}
	return r.FloatString(18)
}
