package world

import (
	"fmt"
	"sort"
	"strings"
	"time"

	"cosmossdk.io/math"
	abci "github.com/cometbft/cometbft/abci/types"
	sdk "github.com/cosmos/cosmos-sdk/types"
	authtypes "github.com/cosmos/cosmos-sdk/x/auth/types"
	minttypes "github.com/cosmos/cosmos-sdk/x/mint/types"
	stakingkeeper "github.com/cosmos/cosmos-sdk/x/staking/keeper"
	stakingtypes "github.com/cosmos/cosmos-sdk/x/staking/types"

	"github.com/terra-money/alliance/x/alliance"
	"github.com/terra-money/alliance/x/alliance/keeper"
	"github.com/terra-money/alliance/x/alliance/types"
)

// Op is one transition of the explored system. It is plain data so that a
// history can be written to a replay file and executed again.
type Op struct {
	K     string            `json:"k"`
	D     int               `json:"d,omitempty"`
	V     int               `json:"v,omitempty"`
	V2    int               `json:"v2,omitempty"`
	Denom string            `json:"denom,omitempty"`
	Amt   string            `json:"amt,omitempty"` // base units; "" with *_all kinds => reported balance
	F     string            `json:"f,omitempty"`   // fraction
	Dt    int64             `json:"dt,omitempty"`  // block step in nanoseconds
	Args  map[string]string `json:"args,omitempty"`
	Class int               `json:"class"`
}

// Op kinds.
const (
	KDelegate       = "delegate"
	KUndelegate     = "undelegate"
	KUndelegateAll  = "undelegate_all" // amount = reported balance (+Args["plus"])
	KRedelegate     = "redelegate"
	KRedelegateAll  = "redelegate_all"
	KClaim          = "claim"
	KSlash          = "slash"  // module-only: alliance hook directly; full pipeline: StakingKeeper.Slash
	KBlock          = "block"  // EndBlocker, header advance (BeginBlock in full pipeline)
	KReward         = "reward" // coins into the fee collector and real AllocateTokens
	KGift           = "gift"   // unsolicited bank send to the custody account
	KGovCreate      = "gov_create"
	KGovUpdate      = "gov_update"
	KGovDelete      = "gov_delete"
	KGovParams      = "gov_params"
	KNDelegate      = "n_delegate"
	KNUndelegate    = "n_undelegate"
	KNUndelegateAll = "n_undelegate_all"
	KNRedelegateAll = "n_redelegate_all"
	KJail           = "jail"
	KUnjail         = "unjail"
	KMaxVals        = "max_validators"
	KUnbondingTime  = "unbonding_time"
	KSettle         = "settle"   // ClaimValidatorRewards for one validator (what any user tx on it triggers)
	KReimport       = "reimport" // export the alliance genesis, wipe the alliance store, import it again (chain restart from an export)
)

func (o Op) String() string {
	var b strings.Builder
	b.WriteString(o.K)
	b.WriteString("(")
	switch o.K {
	case KDelegate, KUndelegate, KUndelegateAll, KClaim:
		fmt.Fprintf(&b, "d%d,v%d,%s", o.D, o.V, o.Denom)
		if o.Amt != "" {
			b.WriteString("," + o.Amt)
		}
	case KRedelegate, KRedelegateAll:
		fmt.Fprintf(&b, "d%d,v%d->v%d,%s", o.D, o.V, o.V2, o.Denom)
		if o.Amt != "" {
			b.WriteString("," + o.Amt)
		}
	case KSlash:
		fmt.Fprintf(&b, "v%d,%s", o.V, o.F)
	case KBlock:
		fmt.Fprintf(&b, "%s", time.Duration(o.Dt))
	case KReward:
		fmt.Fprintf(&b, "%s%s", o.Amt, o.Denom)
	case KGift:
		fmt.Fprintf(&b, "%s%s", o.Amt, o.Denom)
	case KNDelegate, KNUndelegate, KNUndelegateAll:
		fmt.Fprintf(&b, "n%d,v%d,%s", o.D, o.V, o.Amt)
	case KNRedelegateAll:
		fmt.Fprintf(&b, "n%d,v%d->v%d", o.D, o.V, o.V2)
	case KJail, KUnjail, KSettle:
		fmt.Fprintf(&b, "v%d", o.V)
	default:
		b.WriteString(o.Denom)
	}
	if len(o.Args) > 0 {
		keys := make([]string, 0, len(o.Args))
		for k := range o.Args {
			keys = append(keys, k)
		}
		sort.Strings(keys)
		for _, k := range keys {
			fmt.Fprintf(&b, " %s=%s", k, o.Args[k])
		}
	}
	b.WriteString(")")
	return b.String()
}

// Result of executing one Op.
type Result struct {
	Ctx      sdk.Context // successor state (a branch of the input); for a rejected tx: the unchanged input
	Err      error       // error returned by the entry point (or recovered panic)
	Panicked bool
	Rejected bool         // tx semantics: the handler failed, its branch was dropped, state unchanged
	Events   []abci.Event // events emitted by the transition
	HookErr  string       // error of the slash hook swallowed by x/staking (full pipeline)
	EffFrac  math.LegacyDec
	Amount   math.Int // resolved amount for *_all kinds
}

func (w *World) MsgServer() types.MsgServer { return keeper.NewMsgServerImpl(w.App.AllianceKeeper) }

var errNotApplicable = fmt.Errorf("event not applicable in this state")

func callRecover(f func() error) (err error, panicked bool) {
	defer func() {
		if r := recover(); r != nil {
			err = fmt.Errorf("PANIC: %v", r)
			panicked = true
		}
	}()
	return f(), false
}

// Balance reported by the module for a position (what AllianceDelegation returns).
func (w *World) ReportedBalance(ctx sdk.Context, d, v int, denom string) math.Int {
	k := w.App.AllianceKeeper
	del, ok := k.GetDelegation(ctx, w.Dels[d], w.Vals[v], denom)
	if !ok {
		return math.ZeroInt()
	}
	val, err := k.GetAllianceValidator(ctx, w.Vals[v])
	if err != nil {
		return math.ZeroInt()
	}
	asset, ok := k.GetAssetByDenom(ctx, denom)
	if !ok {
		return math.ZeroInt()
	}
	return types.GetDelegationTokens(del, val, asset).Amount
}

func (w *World) delAddr(d int) sdk.AccAddress {
	if d < 0 {
		return w.Out
	}
	if d >= len(w.Dels) {
		return w.Gen
	}
	return w.Dels[d]
}

// Exec runs op on a fresh branch of ctx.
func (w *World) Exec(ctx sdk.Context, op Op) Result {
	c, _ := ctx.CacheContext()
	em := sdk.NewEventManager()
	c = c.WithEventManager(em)
	res := Result{Amount: math.ZeroInt()}
	tx := func(f func() error) Result {
		err, p := callRecover(f)
		res.Err, res.Panicked = err, p
		res.Events = em.ABCIEvents()
		if err != nil {
			res.Rejected = true
			res.Ctx = ctx
			res.Events = nil
		} else {
			res.Ctx = c
		}
		return res
	}
	ms := w.MsgServer()
	k := w.App.AllianceKeeper
	switch op.K {
	case KDelegate:
		return tx(func() error {
			res.Amount = mustInt(op.Amt)
			_, err := ms.Delegate(c, types.NewMsgDelegate(w.delAddr(op.D).String(), w.Vals[op.V].String(), sdk.NewCoin(op.Denom, res.Amount)))
			return err
		})
	case KUndelegate, KUndelegateAll:
		return tx(func() error {
			if op.K == KUndelegateAll {
				res.Amount = w.ReportedBalance(c, op.D, op.V, op.Denom)
				if p, ok := op.Args["plus"]; ok {
					res.Amount = res.Amount.Add(mustInt(p))
				}
				if !res.Amount.IsPositive() {
					return fmt.Errorf("no balance")
				}
			} else {
				res.Amount = mustInt(op.Amt)
			}
			_, err := ms.Undelegate(c, types.NewMsgUndelegate(w.delAddr(op.D).String(), w.Vals[op.V].String(), sdk.NewCoin(op.Denom, res.Amount)))
			return err
		})
	case KRedelegate, KRedelegateAll:
		return tx(func() error {
			if op.K == KRedelegateAll {
				res.Amount = w.ReportedBalance(c, op.D, op.V, op.Denom)
				if p, ok := op.Args["plus"]; ok {
					res.Amount = res.Amount.Add(mustInt(p))
				}
				if !res.Amount.IsPositive() {
					return fmt.Errorf("no balance")
				}
			} else {
				res.Amount = mustInt(op.Amt)
			}
			src := w.Vals[op.V].String()
			if op.Args["src_case"] == "upper" {
				// bech32 is case-insensitive as long as the case is not mixed: the all-uppercase spelling names the same validator
				src = strings.ToUpper(src)
			}
			_, err := ms.Redelegate(c, types.NewMsgRedelegate(w.delAddr(op.D).String(), src, w.Vals[op.V2].String(), sdk.NewCoin(op.Denom, res.Amount)))
			return err
		})
	case KClaim:
		return tx(func() error {
			_, err := ms.ClaimDelegationRewards(c, types.NewMsgClaimDelegationRewards(w.delAddr(op.D).String(), w.Vals[op.V].String(), op.Denom))
			return err
		})
	case KReimport:
		err, p := callRecover(func() error {
			gs := k.ExportGenesis(c)
			st := c.KVStore(w.App.GetKey("alliance"))
			var keys [][]byte
			it := st.Iterator(nil, nil)
			for ; it.Valid(); it.Next() {
				keys = append(keys, append([]byte{}, it.Key()...))
			}
			it.Close()
			for _, key := range keys {
				st.Delete(key)
			}
			k.InitGenesis(c, gs)
			return nil
		})
		res.Err, res.Panicked = err, p
		res.Ctx = c
		return res
	case KSettle:
		return tx(func() error {
			val, err := k.GetAllianceValidator(c, w.Vals[op.V])
			if err != nil {
				return err
			}
			_, err = k.ClaimValidatorRewards(c, val)
			return err
		})
	case KSlash:
		// Not a transaction: runs in BeginBlock; partial writes persist when the hook fails.
		f := math.LegacyMustNewDecFromStr(op.F)
		res.EffFrac = f
		if w.Cfg.FullPipeline {
			w.Log.Reset()
			err, p := callRecover(func() error {
				val, err := w.App.StakingKeeper.GetValidator(c, w.Vals[op.V])
				if err != nil {
					return err
				}
				if val.IsUnbonded() {
					// x/slashing and x/evidence never slash an unbonded validator (StakingKeeper.Slash refuses it): not an event
					return errNotApplicable
				}
				power := val.ConsensusPower(sdk.DefaultPowerReduction)
				// replicate x/staking's effective fraction for the oracle
				amount := sdk.DefaultPowerReduction.MulRaw(power)
				burn := math.MinInt(math.LegacyNewDecFromInt(amount).Mul(f).TruncateInt(), val.Tokens)
				if burn.IsPositive() && val.Tokens.IsPositive() {
					res.EffFrac = math.LegacyNewDecFromInt(burn).QuoRoundUp(math.LegacyNewDecFromInt(val.Tokens))
					if res.EffFrac.GT(math.LegacyOneDec()) {
						res.EffFrac = math.LegacyOneDec()
					}
				} else {
					res.EffFrac = math.LegacyZeroDec()
				}
				_, err = w.App.StakingKeeper.Slash(c, w.Cons[op.V], c.BlockHeight(), power, f)
				return err
			})
			res.Err, res.Panicked = err, p
			res.HookErr = w.Log.HookError()
			if err == errNotApplicable {
				res.Rejected = true
				res.Ctx = ctx
				return res
			}
		} else {
			err, p := callRecover(func() error {
				return k.StakingHooks().BeforeValidatorSlashed(c, w.Vals[op.V], f)
			})
			res.Err, res.Panicked = err, p
		}
		res.Ctx = c
		res.Events = em.ABCIEvents()
		return res
	case KBlock:
		err, p := callRecover(func() error {
			if w.Cfg.FullPipeline {
				if _, err := w.App.ModuleManager.EndBlock(c); err != nil {
					return err
				}
			} else {
				if err := alliance.EndBlocker(c, k); err != nil {
					return err
				}
			}
			return nil
		})
		res.Err, res.Panicked = err, p
		hdr := c.BlockHeader()
		hdr.Height++
		hdr.Time = hdr.Time.Add(time.Duration(op.Dt))
		c = c.WithBlockHeader(hdr)
		if w.Cfg.FullPipeline && err == nil {
			absent := map[int]bool{}
			if a, ok := op.Args["absent"]; ok {
				for _, s := range strings.Split(a, ",") {
					var i int
					fmt.Sscan(s, &i)
					absent[i] = true
				}
			}
			c = c.WithVoteInfos(w.Votes(c, absent))
			err, p = callRecover(func() error {
				_, err := w.App.ModuleManager.BeginBlock(c)
				return err
			})
			if err != nil {
				res.Err, res.Panicked = fmt.Errorf("BeginBlock: %w", err), p
			}
		}
		res.Ctx = c
		res.Events = em.ABCIEvents()
		return res
	case KReward:
		// environment event: fees arrive in the fee collector; module-only worlds allocate at once with the real
		// AllocateTokens, full-pipeline worlds let the next BeginBlock do it.
		err, p := callRecover(func() error {
			coins := sdk.NewCoins(sdk.NewCoin(op.Denom, mustInt(op.Amt)))
			if err := w.App.BankKeeper.MintCoins(c, minttypes.ModuleName, coins); err != nil {
				return err
			}
			if err := w.App.BankKeeper.SendCoinsFromModuleToModule(c, minttypes.ModuleName, authtypes.FeeCollectorName, coins); err != nil {
				return err
			}
			if !w.Cfg.FullPipeline {
				return w.Allocate(c)
			}
			return nil
		})
		if err != nil {
			panic(fmt.Sprintf("HARNESS: reward inflow failed: %v (panic=%v)", err, p))
		}
		res.Ctx = c
		return res
	case KGift:
		err, _ := callRecover(func() error {
			return w.App.BankKeeper.SendCoins(c, w.Out, w.ModAddr, sdk.NewCoins(sdk.NewCoin(op.Denom, mustInt(op.Amt))))
		})
		if err != nil {
			panic(fmt.Sprintf("HARNESS: gift failed: %v", err))
		}
		res.Ctx = c
		return res
	case KGovCreate, KGovUpdate, KGovDelete, KGovParams:
		return tx(func() error { return w.execGov(c, op) })
	case KNDelegate:
		return tx(func() error {
			sms := stakingkeeper.NewMsgServerImpl(w.App.StakingKeeper)
			_, err := sms.Delegate(c, &stakingtypes.MsgDelegate{DelegatorAddress: w.delAddr(op.D).String(), ValidatorAddress: w.Vals[op.V].String(), Amount: sdk.NewCoin("stake", mustInt(op.Amt))})
			return err
		})
	case KNUndelegate, KNUndelegateAll:
		return tx(func() error {
			sms := stakingkeeper.NewMsgServerImpl(w.App.StakingKeeper)
			amt := math.ZeroInt()
			if op.K == KNUndelegateAll {
				amt = w.NativeDelegationTokens(c, w.delAddr(op.D), op.V)
				if !amt.IsPositive() {
					return fmt.Errorf("no native delegation")
				}
			} else {
				amt = mustInt(op.Amt)
			}
			res.Amount = amt
			_, err := sms.Undelegate(c, &stakingtypes.MsgUndelegate{DelegatorAddress: w.delAddr(op.D).String(), ValidatorAddress: w.Vals[op.V].String(), Amount: sdk.NewCoin("stake", amt)})
			return err
		})
	case KNRedelegateAll:
		return tx(func() error {
			sms := stakingkeeper.NewMsgServerImpl(w.App.StakingKeeper)
			amt := w.NativeDelegationTokens(c, w.delAddr(op.D), op.V)
			if !amt.IsPositive() {
				return fmt.Errorf("no native delegation")
			}
			res.Amount = amt
			_, err := sms.BeginRedelegate(c, &stakingtypes.MsgBeginRedelegate{DelegatorAddress: w.delAddr(op.D).String(), ValidatorSrcAddress: w.Vals[op.V].String(), ValidatorDstAddress: w.Vals[op.V2].String(), Amount: sdk.NewCoin("stake", amt)})
			return err
		})
	case KJail:
		return tx(func() error {
			v, err := w.App.StakingKeeper.GetValidator(c, w.Vals[op.V])
			if err != nil {
				return err
			}
			if v.Jailed {
				return fmt.Errorf("already jailed")
			}
			return w.App.StakingKeeper.Jail(c, w.Cons[op.V])
		})
	case KUnjail:
		return tx(func() error {
			v, err := w.App.StakingKeeper.GetValidator(c, w.Vals[op.V])
			if err != nil {
				return err
			}
			if !v.Jailed {
				return fmt.Errorf("not jailed")
			}
			return w.App.StakingKeeper.Unjail(c, w.Cons[op.V])
		})
	case KMaxVals:
		return tx(func() error {
			p, err := w.App.StakingKeeper.GetParams(c)
			if err != nil {
				return err
			}
			var n uint32
			fmt.Sscan(op.Amt, &n)
			if p.MaxValidators == n {
				return fmt.Errorf("unchanged")
			}
			p.MaxValidators = n
			return w.App.StakingKeeper.SetParams(c, p)
		})
	case KUnbondingTime:
		return tx(func() error {
			p, err := w.App.StakingKeeper.GetParams(c)
			if err != nil {
				return err
			}
			if p.UnbondingTime == time.Duration(op.Dt) {
				return fmt.Errorf("unchanged")
			}
			p.UnbondingTime = time.Duration(op.Dt)
			return w.App.StakingKeeper.SetParams(c, p)
		})
	}
	panic("HARNESS: unknown op kind " + op.K)
}

// Allocate distributes whatever is in the fee collector with the real x/distribution allocator to the bonded validators.
func (w *World) Allocate(c sdk.Context) error {
	votes := w.Votes(c, nil)
	var tot int64
	for _, v := range votes {
		tot += v.Validator.Power
	}
	return w.App.DistrKeeper.AllocateTokens(c, tot, votes)
}

func (w *World) NativeDelegationTokens(c sdk.Context, del sdk.AccAddress, v int) math.Int {
	d, err := w.App.StakingKeeper.GetDelegation(c, del, w.Vals[v])
	if err != nil {
		return math.ZeroInt()
	}
	val, err := w.App.StakingKeeper.GetValidator(c, w.Vals[v])
	if err != nil {
		return math.ZeroInt()
	}
	return val.TokensFromShares(d.Shares).TruncateInt()
}

func argDec(a map[string]string, key string) math.LegacyDec {
	s, ok := a[key]
	if !ok || s == "nil" {
		return math.LegacyDec{}
	}
	return math.LegacyMustNewDecFromStr(s)
}

func argDur(a map[string]string, key string) time.Duration {
	s, ok := a[key]
	if !ok {
		return 0
	}
	var n int64
	fmt.Sscan(s, &n)
	return time.Duration(n)
}

// Signer resolves the symbolic signer of a governance op.
func (w *World) Signer(a map[string]string) string {
	switch a["signer"] {
	case "", "authority":
		return w.Auth
	case "user":
		return w.Dels[0].String()
	case "module":
		return w.ModAddr.String()
	case "empty":
		return ""
	case "malformed":
		return "cosmos1notanaddress"
	}
	return a["signer"]
}

func (w *World) execGov(c sdk.Context, op Op) error {
	ms := w.MsgServer()
	a := op.Args
	legacy := a["legacy"] == "1"
	rng := types.RewardWeightRange{Min: argDec(a, "min"), Max: argDec(a, "max")}
	switch op.K {
	case KGovCreate:
		if legacy {
			content := &types.MsgCreateAllianceProposal{Title: "t", Description: "d", Denom: op.Denom, RewardWeight: argDec(a, "w"), RewardWeightRange: rng,
				TakeRate: argDec(a, "take"), RewardChangeRate: argDec(a, "rate"), RewardChangeInterval: argDur(a, "interval")}
			if err := content.ValidateBasic(); err != nil {
				return err
			}
			return alliance.NewAllianceProposalHandler(w.App.AllianceKeeper)(c, content)
		}
		_, err := ms.CreateAlliance(c, &types.MsgCreateAlliance{Authority: w.Signer(a), Denom: op.Denom, RewardWeight: argDec(a, "w"), RewardWeightRange: rng,
			TakeRate: argDec(a, "take"), RewardChangeRate: argDec(a, "rate"), RewardChangeInterval: argDur(a, "interval")})
		return err
	case KGovUpdate:
		if legacy {
			content := &types.MsgUpdateAllianceProposal{Title: "t", Description: "d", Denom: op.Denom, RewardWeight: argDec(a, "w"), RewardWeightRange: rng,
				TakeRate: argDec(a, "take"), RewardChangeRate: argDec(a, "rate"), RewardChangeInterval: argDur(a, "interval")}
			if err := content.ValidateBasic(); err != nil {
				return err
			}
			return alliance.NewAllianceProposalHandler(w.App.AllianceKeeper)(c, content)
		}
		_, err := ms.UpdateAlliance(c, &types.MsgUpdateAlliance{Authority: w.Signer(a), Denom: op.Denom, RewardWeight: argDec(a, "w"), RewardWeightRange: rng,
			TakeRate: argDec(a, "take"), RewardChangeRate: argDec(a, "rate"), RewardChangeInterval: argDur(a, "interval")})
		return err
	case KGovDelete:
		if legacy {
			content := &types.MsgDeleteAllianceProposal{Title: "t", Description: "d", Denom: op.Denom}
			if err := content.ValidateBasic(); err != nil {
				return err
			}
			return alliance.NewAllianceProposalHandler(w.App.AllianceKeeper)(c, content)
		}
		_, err := ms.DeleteAlliance(c, &types.MsgDeleteAlliance{Authority: w.Signer(a), Denom: op.Denom})
		return err
	case KGovParams:
		p := w.App.AllianceKeeper.GetParams(c)
		if _, ok := a["interval"]; ok {
			p.TakeRateClaimInterval = argDur(a, "interval")
		}
		if _, ok := a["delay"]; ok {
			p.RewardDelayTime = argDur(a, "delay")
		}
		switch a["last"] {
		case "zero":
			p.LastTakeRateClaimTime = time.Time{}
		case "past":
			p.LastTakeRateClaimTime = c.BlockTime().Add(-5 * Unit)
		case "now":
			p.LastTakeRateClaimTime = c.BlockTime()
		case "future":
			p.LastTakeRateClaimTime = c.BlockTime().Add(5 * Unit)
		}
		_, err := ms.UpdateParams(c, &types.MsgUpdateParams{Authority: w.Signer(a), Params: p})
		return err
	}
	return fmt.Errorf("bad gov op")
}

// ExecGovKeepBranch runs a governance op on a fresh branch and returns the branch even when the handler fails
// (used only to count handlers that write before failing; tx semantics would drop the branch).
func (w *World) ExecGovKeepBranch(ctx sdk.Context, op Op) (sdk.Context, error) {
	c, _ := ctx.CacheContext()
	err, _ := callRecover(func() error { return w.execGov(c, op) })
	return c, err
}

// AllianceDigest hashes the alliance store only.
func (w *World) AllianceDigest(ctx sdk.Context) [32]byte { return w.Hash(ctx, []string{"alliance"}) }
