// Package props holds one scenario family per property: alphabet, bounds, reference model, oracle, classifier.
package props

import (
	"fmt"
	"math/big"
	"sort"
	"time"

	"cosmossdk.io/math"

	"verifmc/engine"
	"verifmc/world"
)

// Property is the registry entry used by cmd/amc.
type Property struct {
	ID        string
	Title     string
	Scenarios func(tier string) []*engine.Scenario
	// Extra runs non-exploration parts (e.g. C19 static rule). It returns failures and a description for evidence.
	Extra       func(tier string) ([]engine.Failure, map[string]any)
	Assumptions []string
	// NoReproduce: failures are reported without requiring an identical replay (C19: a nondeterministic transition is the
	// violation itself and need not fail the same way twice)
	NoReproduce bool
}

var Registry = map[string]*Property{}

func register(p *Property) { Registry[p.ID] = p }

const U = world.Unit

// Budget classes shared by most scenarios.
const (
	ClsUser = iota
	ClsSlash
	ClsEnv
	ClsBlock
	ClsGov
)

var classNames = []string{"user_tx", "slash", "env(reward/gift/native)", "block", "gov"}

// Alpha is a declarative alphabet; Ops() expands it against the current state with trivial-rejection guards.
type Alpha struct {
	Dels      []int
	Vals      []int
	Denoms    []string
	DelAmts   []string
	UndAmts   []string
	UndAll    bool
	RedAmts   []string
	RedAll    bool
	Claim     bool
	SlashVals []int
	SlashF    []string
	BlockDts  []time.Duration
	Rewards   []world.Op // fully specified reward / gift ops
	Extra     func(n *engine.Node) []world.Op
	NoGuards  bool
}

func (a Alpha) Ops(n *engine.Node) []world.Op {
	var ops []world.Op
	s := n.Snap()
	has := func(d, v int, denom string) bool {
		if a.NoGuards {
			return true
		}
		_, ok := s.FindPos(d, v, denom)
		return ok
	}
	for _, d := range a.Dels {
		for _, v := range a.Vals {
			for _, den := range a.Denoms {
				for _, amt := range a.DelAmts {
					ops = append(ops, world.Op{K: world.KDelegate, D: d, V: v, Denom: den, Amt: amt, Class: ClsUser})
				}
				if has(d, v, den) {
					for _, amt := range a.UndAmts {
						ops = append(ops, world.Op{K: world.KUndelegate, D: d, V: v, Denom: den, Amt: amt, Class: ClsUser})
					}
					if a.UndAll {
						ops = append(ops, world.Op{K: world.KUndelegateAll, D: d, V: v, Denom: den, Class: ClsUser})
					}
					for _, v2 := range a.Vals {
						if v2 == v {
							continue
						}
						for _, amt := range a.RedAmts {
							ops = append(ops, world.Op{K: world.KRedelegate, D: d, V: v, V2: v2, Denom: den, Amt: amt, Class: ClsUser})
						}
						if a.RedAll {
							ops = append(ops, world.Op{K: world.KRedelegateAll, D: d, V: v, V2: v2, Denom: den, Class: ClsUser})
						}
					}
					if a.Claim {
						ops = append(ops, world.Op{K: world.KClaim, D: d, V: v, Denom: den, Class: ClsUser})
					}
				}
			}
		}
	}
	for _, v := range a.SlashVals {
		for _, f := range a.SlashF {
			ops = append(ops, world.Op{K: world.KSlash, V: v, F: f, Class: ClsSlash})
		}
	}
	for _, r := range a.Rewards {
		// x/distribution allocates fees in BeginBlock, before any transaction of the block: reward inflow is only
		// offered as the first event of a block (gifts can arrive any time)
		if r.K == world.KReward && !atBlockStart(n) {
			continue
		}
		r.Class = ClsEnv
		ops = append(ops, r)
	}
	for _, dt := range a.BlockDts {
		ops = append(ops, world.Op{K: world.KBlock, Dt: int64(dt), Class: ClsBlock})
	}
	if a.Extra != nil {
		ops = append(ops, a.Extra(n)...)
	}
	return ops
}

// helpers ------------------------------------------------------------------

func fail(oracle, cause, format string, args ...any) engine.Failure {
	return engine.Failure{Oracle: oracle, Cause: cause, Msg: fmt.Sprintf(format, args...)}
}

func absRat(r *big.Rat) *big.Rat { return new(big.Rat).Abs(r) }

func ratSub(a, b *big.Rat) *big.Rat { return new(big.Rat).Sub(a, b) }
func ratAdd(a, b *big.Rat) *big.Rat { return new(big.Rat).Add(a, b) }
func ratMul(a, b *big.Rat) *big.Rat { return new(big.Rat).Mul(a, b) }
func ratQuo(a, b *big.Rat) *big.Rat { return new(big.Rat).Quo(a, b) }
func ratI(i int64) *big.Rat         { return new(big.Rat).SetInt64(i) }

var one = ratI(1)
var e17inv = new(big.Rat).SetFrac(big.NewInt(1), new(big.Int).Exp(big.NewInt(10), big.NewInt(17), nil))

// tol(T) = 1 + 1e-17*T base units (DESIGN §2.3).
func tol(T *big.Rat) *big.Rat {
	return ratAdd(one, ratMul(e17inv, absRat(T)))
}

func mi(s string) math.Int {
	i, ok := math.NewIntFromString(s)
	if !ok {
		panic("bad int " + s)
	}
	return i
}

func sortedKeys[V any](m map[string]V) []string {
	ks := make([]string, 0, len(m))
	for k := range m {
		ks = append(ks, k)
	}
	sort.Strings(ks)
	return ks
}

func tierPick[T any](tier string, quick, thorough T) T {
	if tier == "thorough" {
		return thorough
	}
	return quick
}

func dts(units ...int) []time.Duration {
	var out []time.Duration
	for _, u := range units {
		out = append(out, time.Duration(u)*U)
	}
	return out
}

// seedOps builders
func opDel(d, v int, denom, amt string) world.Op {
	return world.Op{K: world.KDelegate, D: d, V: v, Denom: denom, Amt: amt}
}
func opUnd(d, v int, denom, amt string) world.Op {
	return world.Op{K: world.KUndelegate, D: d, V: v, Denom: denom, Amt: amt}
}
func opRed(d, v, v2 int, denom, amt string) world.Op {
	return world.Op{K: world.KRedelegate, D: d, V: v, V2: v2, Denom: denom, Amt: amt}
}
func opBlock(units int) world.Op {
	return world.Op{K: world.KBlock, Dt: int64(time.Duration(units) * U)}
}
func opSlash(v int, f string) world.Op    { return world.Op{K: world.KSlash, V: v, F: f} }
func opReward(denom, amt string) world.Op { return world.Op{K: world.KReward, Denom: denom, Amt: amt} }

func sortStrings(s []string) { sort.Strings(s) }

type bigRat = big.Rat

func newRat() *big.Rat { return new(big.Rat) }

// atBlockStart: no transaction has run yet in the current block (seeds are built to end at a block start).
func atBlockStart(n *engine.Node) bool {
	if len(n.Trace) == 0 {
		return true
	}
	k := n.Trace[len(n.Trace)-1].K
	return k == world.KBlock || k == world.KReward
}

// historyHasSlash: the history of x (seed + explored operations, the current one included) contains a slash - of validator v
// if v >= 0, by 100% if full. Known findings whose mechanism needs a slash are only accepted as the explanation of a
// failure when the history has one; the same shape of state reached any other way is reported.
func historyHasSlash(x *engine.Exec, v int, full bool) bool {
	for _, op := range x.Next.History() {
		if op.K != world.KSlash || (v >= 0 && op.V != v) {
			continue
		}
		if !full || op.F == "1" || op.F == "1.0" || op.F == "1.000000000000000000" {
			return true
		}
	}
	return false
}
