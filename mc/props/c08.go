package props

import (
	"strings"

	"verifmc/engine"
	"verifmc/world"
)

// C08: the slash callback never fails, completes all effects and schedules a rebalance.
func c08Step(x *engine.Exec) []engine.Failure {
	ref := x.Next.Ref.(*pendRef)
	if x.Res.Rejected {
		return nil
	}
	prev := x.Prev.Snap()
	var out []engine.Failure
	switch x.Op.K {
	case world.KUndelegate, world.KUndelegateAll:
		ref.onUndelegate(x)
		// did this touch the destination of a pending redelegation?
		for _, r := range ref.Red {
			if r.D == x.Op.D && r.Dst == x.Op.V && r.Denom == x.Op.Denom && r.C >= prev.Time.UnixNano() {
				if _, ok := x.Next.Snap().FindPos(x.Op.D, x.Op.V, x.Op.Denom); !ok {
					x.Cnt.Inc("destination.fully_undelegated_while_pending")
				} else {
					x.Cnt.Inc("destination.partly_undelegated_while_pending")
				}
			}
		}
	case world.KRedelegate, world.KRedelegateAll:
		ref.onRedelegate(x)
	case world.KBlock:
		ref.onEndBlock(prev.Time)
	case world.KSlash:
		x.Cnt.Inc("slash.executed")
		if len(prev.Vals[x.Op.V].ValShares) == 0 {
			x.Cnt.Inc("slash.validator_without_alliance_stake")
		}
		for _, r := range ref.pendingRedsFrom(x.Op.V, prev.Time) {
			for _, amt := range modulePending(x.W, x.Prev.Ctx, r.Dst) {
				if amt.Cmp(ratI(1)) >= 0 {
					x.Cnt.Inc("slash.with_rewards_pending_on_a_destination")
					break
				}
			}
		}
		for _, r := range ref.pendingRedsFrom(x.Op.V, prev.Time) {
			if _, err := x.W.App.StakingKeeper.GetValidator(x.Prev.Ctx, x.W.Vals[r.Dst]); err != nil {
				x.Cnt.Inc("slash.with_pending_redelegation_into_removed_validator")
				break
			}
		}
		if x.Res.EffFrac.IsNil() || x.Res.EffFrac.IsZero() {
			// x/staking computed a zero burn (validator power 0): it does not call the hook at all
			x.Cnt.Inc("slash.zero_effective_fraction_no_callback")
			return nil
		}
		hookErr := ""
		if x.Res.Err != nil {
			hookErr = x.Res.Err.Error()
		}
		if x.Res.HookErr != "" {
			hookErr = x.Res.HookErr
		}
		abortCause := "callback-aborted"
		if strings.Contains(hookErr, "insufficient funds") {
			// the reward claim inside the callback hit an overdrawn rewards pool (C12's defect): root cause of everything
			// this transition leaves undone
			abortCause = "reward-pool-short"
		}
		if hookErr != "" {
			x.Cnt.Inc("slash.callback_aborted")
			cause := "other"
			switch {
			case x.Res.Panicked:
				cause = "panic"
			case strings.Contains(hookErr, "delegator does not contain delegation"):
				cause = "destination-position-gone"
			case strings.Contains(hookErr, "insufficient delegation shares"):
				cause = "destination-smaller-than-slash"
			case strings.Contains(hookErr, "alliance asset is not whitelisted"), strings.Contains(hookErr, "unknown asset"):
				cause = "asset-deleted"
			case strings.Contains(hookErr, "insufficient funds"):
				cause = "reward-pool-short"
			case strings.Contains(hookErr, "does not exist"):
				cause = "destination-validator-removed"
			}
			out = append(out, fail("callback-error", cause, "slash(v%d,%s) callback failed: %s", x.Op.V, x.Op.F, hookErr))
		}
		if !x.Next.Snap().Flag {
			out = append(out, fail("rebalance-not-scheduled", causeIf(hookErr != "", abortCause, ""), "slash(v%d,%s): no voting-power rebalance queued after the callback", x.Op.V, x.Op.F))
		}
		// completeness of the C06/C07 effects: only the part that an aborted callback leaves undone is C08's business
		for _, f := range c07SlashOracle(x, ref) {
			if f.Cause == "callback-aborted" {
				f.Oracle = "incomplete-slash"
				f.Cause = abortCause
				out = append(out, f)
			} else if f.Oracle == "unbonding-slash" {
				// a callback that returns nil but left a pending unbonding of the validator unslashed is not complete either
				f.Oracle = "incomplete-slash"
				out = append(out, f)
			}
		}
		// bonded positions of the slashed validator must have lost value relative to others (validator shares cut)
		for den, sh := range prev.Vals[x.Op.V].ValShares {
			if sh.Sign() > 0 {
				after := x.Next.Snap().Vals[x.Op.V].ValShares[den]
				if after != nil && after.Cmp(sh) >= 0 {
					// the bonded stake is slashed before any stage of the callback that can fail: an abort further down never explains this
					out = append(out, fail("incomplete-slash", "bonded-stake-not-slashed", "slash(v%d,%s): validator shares of %s not reduced (callback error: %q)", x.Op.V, x.Op.F, den, hookErr))
				}
			}
		}
		return out
	case world.KGovDelete:
		x.Cnt.Inc("asset.deleted")
	}
	return out
}

func causeIf(c bool, a, b string) string {
	if c {
		return a
	}
	return b
}

func c08Ops(tier string, fracs []string) func(n *engine.Node) []world.Op {
	return func(n *engine.Node) []world.Op {
		var ops []world.Op
		s := n.Snap()
		// redelegations of D0 (and D1) whose destinations are then manipulated
		for _, pr := range [][2]int{{0, 1}, {1, 0}} {
			for _, a := range []string{"300", "1000"} {
				ops = append(ops, world.Op{K: world.KRedelegate, D: 0, V: pr[0], V2: pr[1], Denom: "aaa", Amt: a, Class: ClsUser})
			}
		}
		ops = append(ops, world.Op{K: world.KRedelegate, D: 1, V: 0, V2: 1, Denom: "aaa", Amt: "300", Class: ClsUser})
		// a second source into the same destination (fan-in: V0 -> V1 and V2 -> V1 in one block share one primary record)
		if _, ok := s.FindPos(0, 2, "aaa"); ok {
			ops = append(ops, world.Op{K: world.KRedelegate, D: 0, V: 2, V2: 1, Denom: "aaa", Amt: "300", Class: ClsUser})
		}
		for _, d := range []int{0, 1} {
			for _, v := range []int{0, 1} {
				if _, ok := s.FindPos(d, v, "aaa"); ok {
					ops = append(ops, world.Op{K: world.KUndelegate, D: d, V: v, Denom: "aaa", Amt: "900", Class: ClsUser})
					ops = append(ops, world.Op{K: world.KUndelegateAll, D: d, V: v, Denom: "aaa", Class: ClsUser})
				}
			}
		}
		if _, ok := s.FindPos(0, 0, "bbb"); ok {
			ops = append(ops, world.Op{K: world.KRedelegateAll, D: 0, V: 0, V2: 1, Denom: "bbb", Class: ClsUser})
		}
		if _, ok := s.FindPos(0, 1, "bbb"); ok {
			ops = append(ops, world.Op{K: world.KUndelegateAll, D: 0, V: 1, Denom: "bbb", Class: ClsUser})
		}
		if _, ok := s.FindPos(1, 1, "bbb"); ok {
			ops = append(ops, world.Op{K: world.KUndelegateAll, D: 1, V: 1, Denom: "bbb", Class: ClsUser})
			if _, ok0 := s.FindPos(0, 0, "bbb"); ok0 {
				ops = append(ops, world.Op{K: world.KUndelegateAll, D: 0, V: 0, Denom: "bbb", Class: ClsUser})
			}
		}
		if a, ok := s.Assets["bbb"]; ok && a.TotalTokens.IsZero() {
			ops = append(ops, world.Op{K: world.KGovDelete, Denom: "bbb", Class: ClsGov})
		}
		for _, v := range []int{0, 1, 2} {
			for i, f := range fracs {
				if v == 2 && i < len(fracs)-1 {
					continue // the validator without alliance stake is slashed with the largest fraction only
				}
				ops = append(ops, world.Op{K: world.KSlash, V: v, F: f, Class: ClsSlash})
			}
		}
		for _, dt := range dts(1, 3) {
			ops = append(ops, world.Op{K: world.KBlock, Dt: int64(dt), Class: ClsBlock})
		}
		return ops
	}
}

// c08AbortSeed: full-pipeline history (world c07Config + FullPipeline) after which the next slash of V0 aborts inside the
// callback with an overdrawn rewards pool (K-C08-reward-pool-short).
func c08AbortSeed() []world.Op {
	return []world.Op{
		opDel(0, 0, "aaa", "1000"), opDel(0, 1, "aaa", "1000"), opDel(1, 0, "aaa", "1000"), opDel(1, 1, "aaa", "1000"),
		opDel(0, 0, "bbb", "1000"),
		opRed(0, 0, 1, "aaa", "300"), opRed(1, 0, 1, "aaa", "300"),
		{K: world.KUndelegateAll, D: 0, V: 0, Denom: "aaa"}, opBlock(1), opSlash(0, "0.5"), opBlock(1),
	}
}

func init() {
	seed := []world.Op{
		opDel(0, 0, "aaa", "1000"), opDel(0, 1, "aaa", "1000"), opDel(1, 0, "aaa", "1000"), opDel(1, 1, "aaa", "1000"),
		opDel(0, 0, "bbb", "1000"), opDel(0, 2, "aaa", "1000"),
	}
	// second seed: bbb staked with amounts and a prior 50% slash that make its share price non-representable (5/6), so that
	// full exits leave sub-unit validator-share dust behind; the asset can then be emptied and deleted by governance
	dustSeed := []world.Op{
		opDel(0, 0, "aaa", "1000"), opDel(1, 1, "aaa", "1000"),
		opDel(0, 0, "bbb", "4000000000"), opDel(1, 1, "bbb", "2000000000"), opSlash(1, "0.5"),
	}
	register(&Property{
		ID:    "C08",
		Title: "Slash callback is total",
		Scenarios: func(tier string) []*engine.Scenario {
			mk := func(name string, cfg world.Config, fracs []string, budgets []int, depth int, stores []string) *engine.Scenario {
				return &engine.Scenario{
					Property: "C08", Name: name, Cfg: cfg, Stores: stores,
					Seeds: [][]world.Op{seed, dustSeed}, ClassNames: classNames, Budgets: budgets, MaxDepth: depth,
					NewRef: func(w *world.World, root *engine.Node) engine.Ref { return newPendRef() },
					Ops:    c08Ops(tier, fracs), Step: c08Step, SeedStep: true,
					Expand: func(x *engine.Exec) bool {
						return !x.Res.Rejected && !(x.Op.K == world.KSlash && x.Next.Used[ClsSlash] >= budgets[ClsSlash])
					},
					Required: []string{"slash.executed", "slash.validator_without_alliance_stake", "destination.fully_undelegated_while_pending", "destination.partly_undelegated_while_pending"},
				}
			}
			full := c07Config()
			full.FullPipeline = true
			fr := []string{"0.01", "0.5", "1"}
			// the destination VALIDATOR of a pending redelegation disappears: V2's only native delegator leaves, alliance stake is
			// redelegated to V2 while it unbonds (the module never stakes on a validator that is not bonded), x/staking removes
			// V2 when its unbonding ends, and the source is slashed while the redelegation is still pending
			removedDst := func(budgets []int, depth int) *engine.Scenario {
				sc := mk("c08-removed-destination", full, fr, budgets, depth, world.AllStores)
				sc.Seeds = [][]world.Op{{opDel(0, 0, "aaa", "1000000"), opDel(1, 0, "aaa", "500000"), opDel(1, 1, "aaa", "500000"), opBlock(1)}}
				sc.Ops = func(n *engine.Node) []world.Op {
					return []world.Op{
						{K: world.KRedelegate, D: 0, V: 0, V2: 2, Denom: "aaa", Amt: "300000", Class: ClsUser},
						{K: world.KRedelegate, D: 1, V: 0, V2: 1, Denom: "aaa", Amt: "100000", Class: ClsUser},
						{K: world.KUndelegate, D: 0, V: 0, Denom: "aaa", Amt: "200000", Class: ClsUser},
						{K: world.KNUndelegateAll, D: 99, V: 2, Class: ClsEnv},
						{K: world.KSlash, V: 0, F: "0.5", Class: ClsSlash},
						{K: world.KBlock, Dt: int64(U), Class: ClsBlock},
						{K: world.KBlock, Dt: int64(2 * U), Class: ClsBlock},
					}
				}
				sc.Required = []string{"slash.executed", "slash.with_pending_redelegation_into_removed_validator"}
				return sc
			}
			// third seed of the staking-slash scenario: a history after which the next slash of V0 aborts inside the callback
			// (K-C08-reward-pool-short: slashed unbonding tokens were recycled as rewards, an earlier slash raised token values);
			// what precedes the failing stage - the bonded slash - must have happened all the same
			abortSeed := c08AbortSeed()
			staking := func(fracs []string, budgets []int, depth int) *engine.Scenario {
				sc := mk("c08-staking-slash", full, fracs, budgets, depth, world.AllStores)
				sc.Seeds = [][]world.Op{seed, dustSeed, abortSeed}
				sc.Required = append(append([]string{}, sc.Required...), "slash.callback_aborted")
				return sc
			}
			// reward inflow: the callback settles the destination of every pending redelegation (ClaimDelegationRewards, which
			// withdraws and splits the destination validator's rewards) right after the slashed validator's shares were cut - by
			// 100% here, which leaves an asset staked only there with tokens but without shares
			rew := mk("c08-rewards-and-full-slash", c07Config(), []string{"0.5", "1"}, tierPick(tier, []int{1, 1, 1, 2, 0}, []int{2, 2, 2, 3, 0}), tierPick(tier, 5, 7), world.ModuleStores)
			rew.Seeds = [][]world.Op{{opDel(0, 0, "aaa", "1000"), opDel(0, 1, "aaa", "1000"), opDel(1, 0, "bbb", "1000"), opBlock(1)}}
			rew.Ops = func(n *engine.Node) []world.Op {
				ops := []world.Op{
					{K: world.KRedelegate, D: 0, V: 0, V2: 1, Denom: "aaa", Amt: "300", Class: ClsUser},
					{K: world.KSlash, V: 0, F: "1", Class: ClsSlash}, {K: world.KSlash, V: 0, F: "0.5", Class: ClsSlash},
					{K: world.KBlock, Dt: int64(U), Class: ClsBlock},
				}
				if atBlockStart(n) {
					ops = append(ops, world.Op{K: world.KReward, Denom: "stake", Amt: "1000003", Class: ClsEnv})
				}
				return ops
			}
			rew.Required = []string{"slash.executed", "slash.with_rewards_pending_on_a_destination"}
			if tier == "thorough" {
				return []*engine.Scenario{
					rew,
					mk("c08-hook", c07Config(), fr, []int{5, 2, 0, 2, 1}, 9, world.ModuleStores),
					staking(fr, []int{4, 2, 0, 2, 1}, 7),
					removedDst([]int{3, 2, 1, 5, 0}, 10),
				}
			}
			return []*engine.Scenario{
				rew,
				mk("c08-hook", c07Config(), []string{"0.01", "1"}, []int{3, 2, 0, 1, 1}, 5, world.ModuleStores),
				staking([]string{"0.5", "1"}, []int{3, 1, 0, 1, 1}, 4),
				removedDst([]int{2, 1, 1, 4, 0}, 8),
			}
		},
		Assumptions: []string{
			"c08-hook delivers slashes through Keeper.StakingHooks().BeforeValidatorSlashed outside a transaction branch (partial writes persist, as in BeginBlock)",
			"c08-staking-slash delivers them through the real StakingKeeper.Slash in a full-pipeline world; the hook's error is observed through a capturing logger because x/staking only logs it",
			"no reward inflow: a rewards-pool shortfall (C12) would abort the claim inside the callback and is decided under C12",
		},
	})
}
