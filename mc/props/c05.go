package props

import (
	"math/big"
	"strings"

	"verifmc/engine"
	"verifmc/world"
)

// C05 liveness: in every reached state a funded outsider can delegate to every validator, and every position with a
// positive reported balance can claim and fully undelegate. Probes run on discarded branches.
func c05Step(x *engine.Exec) []engine.Failure {
	if x.Res.Rejected {
		return nil
	}
	w := x.W
	s := x.Next.Snap()
	ctx := x.Next.Ctx
	var out []engine.Failure
	seen := map[string]bool{}
	add := func(f engine.Failure) {
		k := f.Oracle + "|" + f.Cause
		if !seen[k] {
			seen[k] = true
			out = append(out, f)
		}
	}
	two63 := new(big.Rat).SetInt(new(big.Int).Lsh(big.NewInt(1), 63))
	for _, den := range s.Denoms {
		a := s.Assets[den]
		for v := range w.Vals {
			if _, err := w.App.StakingKeeper.GetValidator(ctx, w.Vals[v]); err != nil {
				continue // the property speaks of existing validators: x/staking has removed this one
			}
			if D := s.Vals[v].DelShares[den]; D != nil && D.Cmp(two63) >= 0 {
				x.Cnt.Inc("state.validator_with_2^63_delegator_shares")
			}
			for _, amt := range []string{"1", "1000000000000"} {
				op := world.Op{K: world.KDelegate, D: -1, V: v, Denom: den, Amt: amt}
				r := w.Exec(ctx, op)
				x.Cnt.Inc("probe.delegate")
				if r.Err != nil {
					cause := ""
					vs := s.Vals[v]
					D := vs.DelShares[den]
					sv := vs.ValShares[den]
					switch {
					case r.Panicked && strings.Contains(r.Err.Error(), "division by zero") && D != nil && D.Sign() > 0 && (sv == nil || sv.Sign() == 0 || vs.Tokens[den] == nil || vs.Tokens[den].Sign() == 0) && (slashedCompletely(x, v) || (a.TotalTokens.IsZero() && historyHasSlash(x, v, false))):
						// the known finding is the state after a 100% slash of THIS validator, or after a slash left a position on it
						// worth less than the 0.01 rounder and the asset was then drained to a staked total of zero (the reset drops
						// every validator share, the worthless delegation keeps its shares); the same shape of state reached any
						// other way (e.g. a withdrawal wiping the validator's shares while the asset is still staked) is not explained
						cause = "delegate-to-validator-with-delegator-shares-but-no-tokens"
					case strings.Contains(r.Err.Error(), "insufficient funds") && strings.Contains(r.Err.Error(), "spendable") && valueChangeAfterReward(x):
						cause = "reward-pool-short"
					case r.Panicked && strings.Contains(r.Err.Error(), "division by zero") && D != nil && D.Sign() > 0 && (sv == nil || sv.Sign() == 0) && bigAsset(s, den):
						// full exits at >= 2e16 base units remove every validator share (clamped) but, through the rounded ratios,
						// not every delegator share: delegator-share dust without any validator share behind it
						cause = ratioCause
					case r.Panicked && strings.Contains(r.Err.Error(), "division by zero") && D != nil && D.Cmp(ratI(1)) >= 0 && modulePricesZero(s, v, den):
						// the validator's stake is worth tokens, but the module prices it through the 18-decimal ratio
						// validatorShares/totalShares, which rounds to zero once the asset has >= 2e18 times more shares elsewhere
						cause = ratioCause
					}
					_ = a
					add(fail("enter", cause, "after %s: outsider cannot delegate %s%s to v%d: %v", x.Op.String(), amt, den, v, r.Err))
				}
			}
		}
	}
	for _, p := range s.Pos {
		if !p.Reported.IsPositive() || p.D < 0 || p.D >= len(w.Dels) {
			continue
		}
		classify := func(err error) string {
			e := err.Error()
			if _, verr := w.App.StakingKeeper.GetValidator(ctx, w.Vals[p.V]); verr != nil && strings.Contains(e, "does not exist") {
				return "validator-removed-while-alliance-stake-on-it"
			}
			vs := s.Vals[p.V]
			D, vt := vs.DelShares[p.Denom], vs.Tokens[p.Denom]
			switch {
			case strings.Contains(e, "insufficient funds"):
				// the known C12 mechanism needs a value-changing event (slash, take-rate block) after rewards accrued;
				// a shortfall without one is not explained by it
				if valueChangeAfterReward(x) {
					return "reward-pool-short"
				}
				if anyRoundedUp(s) {
					return "payout-on-rounded-up-token-amount"
				}
				return ""
			case (strings.Contains(e, "insufficient delegation shares") || strings.Contains(e, "insufficient tokens")) && D != nil && D.Sign() > 0 && D.Cmp(ratI(1)) < 0 && historyHasSlash(x, -1, false):
				return "full-exit-below-one-delegator-share"
			case (strings.Contains(e, "insufficient delegation shares") || strings.Contains(e, "insufficient tokens")) && D != nil && vt != nil && vt.Sign() > 0 &&
				world.RatInt(p.Reported).Cmp(p.Value) > 0 && ratMul(ratQuo(D, vt), ratSub(world.RatInt(p.Reported), p.Value)).Cmp(big.NewRat(1, 100)) >= 0 &&
				needsMoreWholeShares(p, D, vt):
				// the query reports floor(value+0.01), i.e. rounds values in [n-0.01,n) UP to n; ValidateDelegatedAmount's
				// 0.01 window is measured in shares, so at more than one share per token the rounded-up balance can need
				// more shares than the position has
				return "reported-balance-rounded-up-beyond-share-window"
			case s.Assets[p.Denom].TotalValidatorShares.IsZero() && s.Assets[p.Denom].TotalTokens.IsPositive() && historyHasSlash(x, -1, true):
				return "asset-fully-slashed-total-without-shares"
			case strings.Contains(e, "insufficient delegation shares") && bigAsset(s, p.Denom) && D != nil && vt != nil && vt.Sign() > 0 &&
				ratQuo(ratMul(world.RatInt(p.Reported), D), vt).Cmp(ratAdd(p.Shares, big.NewRat(1, 100))) <= 0:
				// in exact arithmetic the position holds enough shares for its reported balance; the module multiplies the
				// 18-decimal ratio delegatorShares/validatorTokens by >= 1e18 tokens, which is off by whole shares
				return ratioCause
			case (strings.Contains(e, "insufficient delegation shares") || strings.Contains(e, "insufficient tokens")) && bigAsset(s, p.Denom) &&
				p.Reported.BigInt().Cmp(world.Floor(ratAdd(p.Value, big.NewRat(1, 100)))) != 0:
				// the reported balance is not floor(exact value + 0.01), the query's own definition
				return ratioCause
			case strings.Contains(e, "insufficient tokens") && bigAsset(s, p.Denom) && world.RatInt(p.Reported).Cmp(ratAdd(p.Value, big.NewRat(1, 100))) <= 0:
				// the position is worth its reported balance; Undelegate re-prices it through the rounded ratios and finds less
				return ratioCause
			case strings.Contains(e, "negative coin amount") && bigAsset(s, p.Denom):
				// either the reported balance is not floor(exact value + 0.01), or it is and Undelegate re-prices it differently: at >= 1e18 base
				// units the 18-decimal share ratios that price it are off by whole units, in the query and again in Undelegate
				return ratioCause
			}
			return ""
		}
		classifyBig := func(err error) string {
			c := classify(err)
			if c == "" && strings.Contains(err.Error(), "insufficient funds") && bigAsset(s, p.Denom) {
				// payouts are index x reported token amount; the reported amounts are off by whole units (see above)
				return ratioCause
			}
			return c
		}
		r := w.Exec(ctx, world.Op{K: world.KClaim, D: p.D, V: p.V, Denom: p.Denom})
		x.Cnt.Inc("probe.claim")
		if r.Err != nil {
			add(fail("claim", classifyBig(r.Err), "after %s: %s cannot claim: %v", x.Op.String(), p.Key(), r.Err))
		}
		r = w.Exec(ctx, world.Op{K: world.KUndelegateAll, D: p.D, V: p.V, Denom: p.Denom})
		x.Cnt.Inc("probe.full_exit")
		if r.Err != nil {
			add(fail("exit", classifyBig(r.Err), "after %s: %s cannot undelegate its reported balance %s (exact value %s): %v", x.Op.String(), p.Key(), p.Reported, world.RatF(p.Value), r.Err))
		}
	}
	if x.Op.K == world.KSlash {
		x.Cnt.Inc("state.after_slash")
	}
	if x.Op.K == world.KBlock && !x.Prev.Snap().Fee.Equal(s.Fee) {
		x.Cnt.Inc("state.after_take_rate")
	}
	if x.Op.K == world.KReward {
		x.Cnt.Inc("state.after_reward")
	}
	return out
}

func init() {
	register(&Property{
		ID:    "C05",
		Title: "User-operation liveness",
		Scenarios: func(tier string) []*engine.Scenario {
			al := Alpha{
				Dels: []int{0, 1}, Vals: []int{0, 1}, Denoms: []string{"aaa"},
				DelAmts: []string{"3", "10"}, UndAmts: []string{"1", "7"}, UndAll: true,
				RedAmts: []string{"2"}, RedAll: true, Claim: true,
				SlashVals: []int{0, 1}, SlashF: []string{"0.333333333333333333", "0.99", "1"},
				BlockDts: dts(1, 3),
				Rewards:  []world.Op{{K: world.KReward, Denom: "stake", Amt: "1000"}},
			}
			mk := func(name string, seeds [][]world.Op, budgets []int, depth int) *engine.Scenario {
				return &engine.Scenario{
					Property: "C05", Name: name, Cfg: world.DefaultConfig(), Stores: world.ModuleStores,
					Seeds: seeds, ClassNames: classNames, Budgets: budgets, MaxDepth: depth,
					Ops: al.Ops, Step: c05Step, SeedStep: true,
					Required: []string{"probe.delegate", "probe.claim", "probe.full_exit", "state.after_slash", "state.after_take_rate"},
				}
			}
			// deep discount: take rate 0.3 compounded over many intervals and two 99% slashes (shares per token >= 100)
			deep := []world.Op{
				opDel(0, 0, "aaa", "1000000"), opDel(1, 1, "aaa", "1000000"), opBlock(7), opBlock(7), opBlock(7), opBlock(7), opBlock(1),
				opSlash(0, "0.99"), opSlash(0, "0.99"),
			}
			staked := []world.Op{opDel(0, 0, "aaa", "10"), opDel(1, 0, "aaa", "7"), opDel(1, 1, "aaa", "3"), opBlock(1), opReward("stake", "1000")}
			// magnitudes: 18-decimal assets put 1e18..1e30 base units (and as many shares) on a validator; totals cross 2^63 and 2^64 (4 and 10 whole tokens of an 18-decimal asset per delegation)
			magAl := Alpha{
				Dels: []int{0, 1}, Vals: []int{0, 1}, Denoms: []string{"aaa"},
				DelAmts: []string{"4000000000000000000", "10000000000000000000"}, UndAmts: []string{"1"}, UndAll: true,
				RedAmts: []string{"1000000000000000000"}, RedAll: true, Claim: true,
				SlashVals: []int{0}, SlashF: []string{"0.333333333333333333"},
				BlockDts: dts(1, 3),
				Rewards:  []world.Op{{K: world.KReward, Denom: "stake", Amt: "1000"}},
			}
			mag := func(budgets []int, depth int) *engine.Scenario {
				sc := mk("c05-magnitude", [][]world.Op{nil, {opDel(0, 0, "aaa", "4000000000000000000"), opDel(1, 0, "aaa", "1000000000000000000"), opBlock(1)}}, budgets, depth)
				sc.Ops = magAl.Ops
				sc.Required = []string{"probe.delegate", "probe.claim", "probe.full_exit", "state.validator_with_2^63_delegator_shares"}
				return sc
			}
			if tier == "thorough" {
				return []*engine.Scenario{
					mag([]int{4, 1, 1, 2, 0}, 6),
					mk("c05-empty", [][]world.Op{nil}, []int{4, 2, 1, 2, 0}, 7),
					mk("c05-staked", [][]world.Op{staked, deep}, []int{3, 2, 1, 2, 0}, 6),
					unionScenarioDepth("C05", "c05-union", tier, c05Step, nil, 5),
					unionFullScenario("C05", "c05-union-full-pipeline", tier, c05Step, nil, 5),
				}
			}
			return []*engine.Scenario{
				mag([]int{3, 1, 1, 2, 0}, 4),
				mk("c05-empty", [][]world.Op{nil}, []int{3, 1, 1, 2, 0}, 4),
				mk("c05-staked", [][]world.Op{staked, deep}, []int{2, 1, 1, 2, 0}, 3),
				unionScenarioDepth("C05", "c05-union", tier, c05Step, nil, 3),
				unionFullScenario("C05", "c05-union-full-pipeline", tier, c05Step, nil, 3),
			}
		},
		Assumptions: []string{
			"probes: outsider delegates 1 and 1e12 of every asset to every validator; every position with a positive reported balance claims and undelegates exactly that balance; each probe on its own discarded branch",
			"slash fractions 1/3, 0.99, 1; take rate 0.3; reward inflow in the bond denom",
		},
	})
}

// slashedCompletely: the history (seed included) contains a slash of validator v by 100%.
func slashedCompletely(x *engine.Exec, v int) bool { return historyHasSlash(x, v, true) }

const ratioCause = "18-decimal-share-ratio-precision"

// modulePricesZero: validator v holds shares of the asset that are worth tokens, but the module's own pricing
// (validatorShares / totalShares rounded to 18 decimals, then x totalTokens) gives zero.
func modulePricesZero(s *world.Snap, v int, den string) bool {
	a := s.Assets[den]
	vs := s.Vals[v].ValShares[den]
	if vs == nil || vs.Sign() <= 0 || !a.TotalValidatorShares.IsPositive() {
		return false
	}
	return ratDec(vs).Quo(a.TotalValidatorShares).MulInt(a.TotalTokens).IsZero()
}

// bigAsset: the asset's staked total is at least 2e16 base units (0.02 token of an 18-decimal asset): from there on the
// rounding of an 18-decimal ratio (0.5e-18) multiplied by the total exceeds the 0.01 window the module allows for.
func bigAsset(s *world.Snap, den string) bool {
	a, ok := s.Assets[den]
	return ok && a.TotalTokens.GTE(mi("20000000000000000"))
}

// needsMoreWholeShares is the exact condition under which the unchanged ValidateDelegatedAmount refuses the reported
// balance: the shares needed for it, truncated to a whole number, exceed the shares the position holds
// (delegation.Shares < TruncateDec(needed)). A refusal with a smaller excess is NOT the known finding.
func needsMoreWholeShares(p world.Pos, D, vt *big.Rat) bool {
	needed := ratQuo(ratMul(world.RatInt(p.Reported), D), vt)
	// the module computes the quotient D/vt with 18 digits: allow that much slack around an integer boundary
	slack := ratMul(world.RatInt(p.Reported), big.NewRat(1, 1000000000000000000))
	fl := new(big.Rat).SetInt(world.Floor(ratAdd(needed, slack)))
	return fl.Cmp(p.Shares) > 0
}

// anyRoundedUp: some position's token amount as used by the reward payout (floor(value + 0.01)) exceeds its exact value.
// A claim pays index x that rounded-up amount, so the positions together can be owed more than the pool received.
func anyRoundedUp(s *world.Snap) bool {
	for _, q := range s.Pos {
		if world.RatInt(q.Reported).Cmp(q.Value) > 0 {
			return true
		}
	}
	return false
}

// valueChangeAfterReward: did a slash or a block (take-rate deduction, rebalancing settlement) follow a reward
// allocation in this history? Seeds of the staked scenario end with a reward allocation, so there any later slash or
// block counts (conservative).
func valueChangeAfterReward(x *engine.Exec) bool {
	rewarded := len(x.Next.Snap().Pool) > 0 || len(x.Prev.Snap().Pool) > 0
	seen := false
	for _, op := range x.Next.Trace {
		if op.K == world.KReward {
			seen = true
			continue
		}
		if (seen || rewarded) && (op.K == world.KSlash || op.K == world.KBlock) {
			return true
		}
	}
	return false
}
