package props

import (
	"fmt"
	"math/big"

	"verifmc/engine"
	"verifmc/world"
)

// slashFactors returns, per denom, g = S/(S - f*s_V) (nil when undefined: the slashed validator held every share and f=1).
func slashFactors(prev *world.Snap, v int, f *big.Rat) map[string]*big.Rat {
	out := map[string]*big.Rat{}
	for _, den := range prev.Denoms {
		a := prev.Assets[den]
		S := world.Rat(a.TotalValidatorShares)
		sv := prev.Vals[v].ValShares[den]
		if sv == nil {
			sv = new(big.Rat)
		}
		rest := ratSub(S, ratMul(f, sv))
		if S.Sign() == 0 {
			// no shares at all: nothing staked (g irrelevant), or everything slashed away earlier while the staked total
			// stayed positive - then position values are not meaningful (degenerate state, see K-C04-fully-slashed-asset)
			if a.TotalTokens.IsPositive() {
				out[den] = nil
			} else {
				out[den] = ratI(1)
			}
			continue
		}
		if rest.Sign() <= 0 {
			out[den] = nil
			continue
		}
		out[den] = ratQuo(S, rest)
	}
	return out
}

// c07SlashOracle checks one slash transition against the reference of pending unbondings and redelegations.
// It is shared by C07 (exactness/scope) and C08 (completeness).
func c07SlashOracle(x *engine.Exec, ref *pendRef) []engine.Failure {
	prev, next := x.Prev.Snap(), x.Next.Snap()
	var out []engine.Failure
	f := world.Rat(x.Res.EffFrac)
	v := x.Op.V
	aborted := x.Res.Err != nil || x.Res.HookErr != ""
	// --- pending unbondings: exact, single, scoped
	fee, hit := ref.onSlash(v, f, prev.Time)
	if hit > 0 {
		x.Cnt.Inc("slash.hit_pending_unbonding")
	}
	if aborted {
		// judged below against the full cut (and reported); afterwards the reference follows what is really pending
		defer ref.resyncUnb(next)
	}
	cause := func(c string) string {
		if aborted {
			return "callback-aborted"
		}
		return c
	}
	for _, fl := range compareUnb(next, ref, "unbonding-slash") {
		fl.Cause = cause(fl.Cause)
		out = append(out, fl)
	}
	denoms := map[string]bool{}
	for _, den := range prev.Denoms {
		denoms[den] = true
	}
	for _, u := range prev.Unb {
		denoms[u.Denom] = true
	}
	for den := range denoms {
		want := fee[den]
		if want == nil {
			want = new(big.Int)
		}
		got := new(big.Int).Sub(next.Fee.AmountOf(den).BigInt(), prev.Fee.AmountOf(den).BigInt())
		if got.Cmp(want) != 0 {
			out = append(out, fail("unbonding-slash", cause("fee-collector-delta"), "slash(v%d,%s): fee collector received %s %s, reference sum of floor(f*balance) = %s", v, x.Op.F, got, den, want))
		}
		// custody may drop only by what was forwarded
		gotC := new(big.Int).Sub(prev.Custody.AmountOf(den).BigInt(), next.Custody.AmountOf(den).BigInt())
		if gotC.Cmp(got) != 0 {
			out = append(out, fail("unbonding-slash", cause("custody-delta"), "slash(v%d,%s): custody dropped by %s %s but fee collector received %s", v, x.Op.F, gotC, den, got))
		}
	}
	// --- pending redelegations out of v
	g := slashFactors(prev, v, f)
	type grp struct {
		d, dst int
		den    string
	}
	cuts := map[grp]*big.Rat{}     // property: f * amount redelegated from v
	recTotal := map[grp]*big.Rat{} // what the merged primary record(s) hold for the same keys (all sources)
	merged := map[grp]bool{}
	for _, r := range ref.pendingRedsFrom(v, prev.Time) {
		k := grp{r.D, r.Dst, r.Denom}
		if cuts[k] == nil {
			cuts[k] = new(big.Rat)
			recTotal[k] = new(big.Rat)
		}
		cuts[k].Add(cuts[k], ratMul(f, new(big.Rat).SetInt(r.Amt)))
	}
	// record totals per (d, denom, dst, completion) reachable from an index key of v
	seenRec := map[string]bool{}
	for _, r := range ref.pendingRedsFrom(v, prev.Time) {
		rk := fmt.Sprintf("%d/%s/%d@%d", r.D, r.Denom, r.Dst, r.C)
		if seenRec[rk] {
			continue
		}
		seenRec[rk] = true
		k := grp{r.D, r.Dst, r.Denom}
		for _, o := range ref.Red {
			if o.D == r.D && o.Denom == r.Denom && o.Dst == r.Dst && o.C == r.C {
				recTotal[k].Add(recTotal[k], ratMul(f, new(big.Rat).SetInt(o.Amt)))
				if o.Src != v {
					merged[k] = true
				}
			}
		}
	}
	if len(cuts) > 0 {
		x.Cnt.Inc("slash.hit_pending_redelegation")
	}
	nextPos := next.PosMap()
	// total shares burnt from destination positions per (validator, denom)
	burnSum := func(dv int, den string) *big.Rat {
		sum := new(big.Rat)
		for _, q := range prev.Pos {
			if q.V != dv || q.Denom != den || cuts[grp{q.D, q.V, q.Denom}] == nil {
				continue
			}
			after := new(big.Rat)
			if nq, ok := nextPos[q.Key()]; ok {
				after = nq.Shares
			}
			sum.Add(sum, ratSub(q.Shares, after))
		}
		return sum
	}
	for _, p := range prev.Pos {
		np, ok := nextPos[p.Key()]
		k := grp{p.D, p.V, p.Denom}
		cut := cuts[k]
		if cut == nil {
			// not a destination of a pending redelegation out of v: delegation shares must be untouched
			if !ok {
				out = append(out, fail("redelegation-slash", cause("untouched-position-removed"), "slash(v%d): position %s disappeared", v, p.Key()))
			} else if np.Shares.Cmp(p.Shares) != 0 {
				out = append(out, fail("redelegation-slash", cause("untouched-position-shares-changed"), "slash(v%d): shares of %s changed %s -> %s although no pending redelegation out of v%d points at it", v, p.Key(), p.Shares.FloatString(18), np.Shares.FloatString(18), v))
			}
			continue
		}
		gd := g[p.Denom]
		if gd == nil {
			continue
		}
		x.Cnt.Inc("redelegation.destination_checked")
		newVal := new(big.Rat)
		if ok {
			newVal = np.Value
		}
		base := ratMul(gd, p.Value)
		want := ratSub(base, cut)
		capped := false
		if want.Sign() < 0 {
			want = new(big.Rat)
			capped = true
			x.Cnt.Inc("redelegation.slash_capped_at_holdings")
		}
		T := world.RatInt(prev.Assets[p.Denom].TotalTokens)
		tl := ratAdd(tol(T), ratI(int64(len(ref.Red)))) // one floor per entry
		diff := ratSub(newVal, want)
		if absRat(diff).Cmp(tl) <= 0 {
			continue
		}
		// classify
		c := ""
		switch {
		case aborted:
			c = "callback-aborted"
		case merged[k] && !capped:
			// the primary record also holds amounts redelegated from other sources; the code charges f * record total
			want2 := ratSub(base, recTotal[k])
			if want2.Sign() < 0 {
				want2 = new(big.Rat)
			}
			if explainedByShareBurn(p, prev, next, gd, recTotal[k], burnSum(p.V, p.Denom)) || absRat(ratSub(newVal, want2)).Cmp(tl) <= 0 {
				c = "redelegation-record-merged-sources"
			}
			// after a restart from an export the merged record carries its first source only: a slash of the other
			// source finds no index key and cuts nothing (same root cause, K-C18-merged-redelegation-record)
			if c == "" && ref.RestartedWithMergedRecord && absRat(ratSub(newVal, base)).Cmp(tl) <= 0 {
				c = "redelegation-record-merged-sources"
			}
		case explainedByShareBurn(p, prev, next, gd, cut, burnSum(p.V, p.Denom)):
			c = "redelegation-slash-diluted-by-own-share"
		}
		out = append(out, fail("redelegation-slash", c, "slash(v%d,%s): destination %s worth %s -> %s, property expects g*value - f*amount = %s (g=%s, cut=%s)", v, x.Op.F, p.Key(), world.RatF(p.Value), world.RatF(newVal), world.RatF(want), world.RatF(gd), world.RatF(cut)))
	}
	return out
}

// explainedByShareBurn recognises the code's mechanism for slashing a redelegation: it removes x shares, worth
// floor(f*amount) at the destination validator's post-slash price, from the delegation AND from the destination
// validator's delegator-share total, leaving the validator's own shares alone. The position then keeps
// (sh-x)/(D-x) of the validator's tokens, i.e. part of the slash flows back to the slashed position itself (all of it
// when it is the validator's only delegator). The predicate is quantitative: x must be the share-worth of the cut.
func explainedByShareBurn(p world.Pos, prev, next *world.Snap, g, cut, burnTotal *big.Rat) bool {
	vs, ns := prev.Vals[p.V], next.Vals[p.V]
	D, vt := vs.DelShares[p.Denom], vs.Tokens[p.Denom]
	if D == nil || vt == nil || D.Sign() == 0 || vt.Sign() == 0 {
		return false
	}
	D2 := ns.DelShares[p.Denom]
	if D2 == nil {
		D2 = new(big.Rat)
	}
	// the destination validator's own shares are untouched, its delegator total drops by exactly the burnt shares
	if a, b := vs.ValShares[p.Denom], ns.ValShares[p.Denom]; a == nil || b == nil || a.Cmp(b) != 0 {
		return false
	}
	if ratSub(D, D2).Cmp(burnTotal) != 0 {
		return false
	}
	after := new(big.Rat)
	if np, ok := next.FindPos(p.D, p.V, p.Denom); ok {
		after = np.Shares
	}
	xs := ratSub(p.Shares, after)
	if xs.Sign() < 0 {
		return false
	}
	if after.Sign() == 0 {
		return true // capped at holdings
	}
	vt2 := ratMul(g, vt)
	slack := ratAdd(big.NewRat(1, 100), ratMul(e17inv, cut))
	upper := ratAdd(ratQuo(ratMul(cut, D), vt2), slack)
	lower := ratSub(ratQuo(ratMul(ratSub(cut, one), D2), vt2), slack)
	return xs.Cmp(lower) >= 0 && xs.Cmp(upper) <= 0
}

func c07Step(x *engine.Exec) []engine.Failure {
	ref := x.Next.Ref.(*pendRef)
	if x.Res.Rejected {
		return nil
	}
	prev := x.Prev.Snap()
	var out []engine.Failure
	switch x.Op.K {
	case world.KUndelegate, world.KUndelegateAll:
		ref.onUndelegate(x)
	case world.KRedelegate, world.KRedelegateAll:
		ref.onRedelegate(x)
		for _, r := range ref.Red[:len(ref.Red)-1] {
			n := ref.Red[len(ref.Red)-1]
			if r.D == n.D && r.Denom == n.Denom && r.Dst == n.Dst && r.C == n.C {
				if r.Src != n.Src {
					x.Cnt.Inc("redelegation.fan_in_same_block")
				} else {
					x.Cnt.Inc("redelegation.repeated_same_pair_same_block")
				}
			}
		}
	case world.KBlock:
		ref.onEndBlock(prev.Time)
	case world.KGovDelete:
		if len(x.Prev.Snap().Unb) > 0 {
			x.Cnt.Inc("asset.deleted_with_pending_unbondings")
			for _, u := range x.Prev.Snap().Unb {
				if u.Denom == x.Op.Denom && u.Amt.GTE(mi("1000000000")) {
					x.Cnt.Inc("asset.deleted_after_full_exits_at_unrepresentable_price")
					break
				}
			}
		}
	case world.KReimport:
		if x.Res.Err != nil {
			return append(out, fail("restart", "error", "genesis export/import failed: %v", x.Res.Err))
		}
		ref.onRestart()
	case world.KSlash:
		if x.Res.Err != nil {
			x.Cnt.Inc("slash.callback_error")
		}
		if x.Prev.Used[ClsEnv] > 0 {
			x.Cnt.Inc("slash.after_restart")
		}
		for _, r := range ref.pendingRedsFrom(x.Op.V, prev.Time) {
			if D := prev.Vals[r.Dst].DelShares[r.Denom]; D != nil && D.Sign() > 0 && D.Cmp(ratI(1)) < 0 {
				x.Cnt.Inc("slash.with_destination_below_one_delegator_share")
				break
			}
		}
		for _, u := range ref.Unb {
			if _, ok := prev.Assets[u.Denom]; !ok && u.V == x.Op.V {
				x.Cnt.Inc("slash.with_pending_unbonding_of_deleted_asset")
			}
			if u.V == x.Op.V && len(prev.Vals[x.Op.V].ValShares) == 0 {
				x.Cnt.Inc("slash.of_validator_everybody_left_with_pending_unbondings")
			}
		}
		// timing classes
		for _, u := range ref.Unb {
			if u.V == x.Op.V {
				switch {
				case u.C == prev.Time.UnixNano():
					x.Cnt.Inc("slash.at_completion_instant")
				case u.C < prev.Time.UnixNano():
					x.Cnt.Inc("slash.after_completion_before_payout")
				}
			}
		}
		out = append(out, c07SlashOracle(x, ref)...)
		return out
	}
	// outside slashes the stored queue must equal the reference too (keeps the reference honest)
	out = append(out, compareUnb(x.Next.Snap(), ref, "queue")...)
	return out
}

func c07Config() world.Config {
	cfg := world.DefaultConfig()
	cfg.Assets[0].TakeRate = "0"
	cfg.ExtraDenoms = []string{"aaa", "bbb"}
	return cfg
}

var c07Seed = []world.Op{
	opDel(0, 0, "aaa", "1000"), opDel(0, 1, "aaa", "1000"), opDel(0, 2, "aaa", "1000"),
	opDel(0, 0, "bbb", "1000"), opDel(0, 1, "bbb", "1000"),
	opDel(1, 0, "aaa", "1000"), opDel(1, 2, "aaa", "500"),
}

func c07Ops(tier string) func(n *engine.Node) []world.Op {
	return func(n *engine.Node) []world.Op {
		var ops []world.Op
		amt := "300"
		s0 := n.Snap()
		// D0: undelegations and redelegations across validators and denoms
		for _, v := range []int{0, 1, 2} {
			ops = append(ops, world.Op{K: world.KUndelegate, D: 0, V: v, Denom: "aaa", Amt: amt, Class: ClsUser})
		}
		for _, v := range []int{0, 1} {
			ops = append(ops, world.Op{K: world.KUndelegate, D: 0, V: v, Denom: "bbb", Amt: amt, Class: ClsUser})
		}
		for _, pr := range [][2]int{{0, 1}, {0, 2}, {1, 2}, {1, 0}, {2, 0}} {
			ops = append(ops, world.Op{K: world.KRedelegate, D: 0, V: pr[0], V2: pr[1], Denom: "aaa", Amt: amt, Class: ClsUser})
		}
		ops = append(ops, world.Op{K: world.KRedelegate, D: 0, V: 0, V2: 1, Denom: "bbb", Amt: amt, Class: ClsUser})
		// D1: one undelegation, one redelegation (other delegator in the same block / same validators)
		ops = append(ops, world.Op{K: world.KUndelegate, D: 1, V: 0, Denom: "aaa", Amt: amt, Class: ClsUser})
		ops = append(ops, world.Op{K: world.KRedelegate, D: 1, V: 0, V2: 2, Denom: "aaa", Amt: amt, Class: ClsUser})
		if tier == "thorough" {
			ops = append(ops, world.Op{K: world.KUndelegate, D: 0, V: 0, Denom: "aaa", Amt: "7", Class: ClsUser})
			ops = append(ops, world.Op{K: world.KRedelegateAll, D: 0, V: 0, V2: 1, Denom: "aaa", Class: ClsUser})
		}
		// everybody can leave a validator (here V2: D0 and D1, one denom): its pending unbondings/redelegations are still slashed
		for _, d := range []int{0, 1} {
			if _, ok := s0.FindPos(d, 2, "aaa"); ok {
				ops = append(ops, world.Op{K: world.KUndelegateAll, D: d, V: 2, Denom: "aaa", Class: ClsUser})
			}
		}
		if _, ok := s0.FindPos(1, 2, "aaa"); ok {
			ops = append(ops, world.Op{K: world.KRedelegateAll, D: 1, V: 2, V2: 0, Denom: "aaa", Class: ClsUser})
		}
		// governance can delete an asset whose stake is fully withdrawn while its unbondings are still pending
		s := n.Snap()
		for _, v := range []int{0, 1} {
			if _, ok := s.FindPos(0, v, "bbb"); ok {
				ops = append(ops, world.Op{K: world.KUndelegateAll, D: 0, V: v, Denom: "bbb", Class: ClsUser})
			}
		}
		if a, ok := s.Assets["bbb"]; ok && a.TotalTokens.IsZero() {
			ops = append(ops, world.Op{K: world.KGovDelete, Denom: "bbb", Class: ClsGov, Args: map[string]string{"signer": "authority"}})
		}
		for _, v := range []int{0, 1, 2} {
			for _, f := range []string{"0.333333333333333333", "0.5", "1"} {
				ops = append(ops, world.Op{K: world.KSlash, V: v, F: f, Class: ClsSlash})
			}
		}
		for _, dt := range dts(1, 2, 3) {
			ops = append(ops, world.Op{K: world.KBlock, Dt: int64(dt), Class: ClsBlock})
		}
		return ops
	}
}

func init() {
	register(&Property{
		ID:    "C07",
		Title: "Slashing of pending unbondings/redelegations is exact, single and scoped",
		Scenarios: func(tier string) []*engine.Scenario {
			mk := func(name string, budgets []int, depth int) *engine.Scenario {
				return &engine.Scenario{
					Property: "C07", Name: name, Cfg: c07Config(), Stores: world.ModuleStores,
					Seeds: [][]world.Op{c07Seed}, ClassNames: classNames, Budgets: budgets, MaxDepth: depth,
					NewRef: func(w *world.World, root *engine.Node) engine.Ref { return newPendRef() },
					Ops:    c07Ops(tier), Step: c07Step, SeedStep: true,
					// the oracle sits on the slash transition: once the slash budget is used up nothing below can be checked
					Expand: func(x *engine.Exec) bool {
						return !x.Res.Rejected && !(x.Op.K == world.KSlash && x.Next.Used[ClsSlash] >= budgets[ClsSlash])
					},
					Required: []string{"slash.hit_pending_unbonding", "slash.hit_pending_redelegation", "redelegation.destination_checked", "redelegation.fan_in_same_block", "slash.at_completion_instant", "slash.after_completion_before_payout", "slash.with_pending_unbonding_of_deleted_asset", "slash.of_validator_everybody_left_with_pending_unbondings"},
				}
			}
			// the same oracle on a chain restarted from a genesis export while entries are pending: the packed seed has one
			// delegator leaving one validator in two denoms and two validators in one block, a second delegator in the same
			// block, a fan-in of redelegations; InitGenesis rebuilds every index the slash walks
			restart := func(budgets []int, depth int) *engine.Scenario {
				sc := mk("c07-restart", budgets, depth)
				sc.Seeds = [][]world.Op{append(append([]world.Op{}, c07Seed...), opBlock(1),
					opUnd(0, 0, "aaa", "300"), opUnd(0, 0, "bbb", "200"), opUnd(0, 1, "aaa", "100"), opUnd(1, 0, "aaa", "50"),
					opRed(0, 0, 2, "aaa", "70"), opRed(0, 1, 2, "aaa", "30"), opRed(1, 0, 2, "aaa", "20"))}
				inner := c07Ops(tier)
				sc.Ops = func(n *engine.Node) []world.Op {
					ops := []world.Op{{K: world.KReimport, Class: ClsEnv}}
					for _, o := range inner(n) {
						if o.K == world.KSlash || o.K == world.KBlock || (o.K == world.KUndelegate && o.D == 0 && o.V == 0) {
							ops = append(ops, o)
						}
					}
					return ops
				}
				sc.Required = []string{"slash.hit_pending_unbonding", "slash.hit_pending_redelegation", "slash.after_restart"}
				return sc
			}
			// an asset whose share price is not representable (5/6 after a 50% slash of one of its two validators) is emptied and
			// deleted by governance; whatever its full exits leave behind on the validators must not get in the way of slashing the
			// pending entries of the OTHER asset (three seeds: every choice of the validator that never held the emptied asset)
			dust := func(budgets []int, depth int) *engine.Scenario {
				sc := mk("c07-deleted-asset-dust", budgets, depth)
				sc.Seeds = nil
				for _, h := range [][2]int{{0, 1}, {1, 2}, {0, 2}} {
					sc.Seeds = append(sc.Seeds, []world.Op{
						opDel(0, 0, "aaa", "1000"), opDel(0, 1, "aaa", "1000"), opDel(0, 2, "aaa", "1000"),
						opDel(0, h[0], "bbb", "4000000000"), opDel(1, h[1], "bbb", "2000000000"), opSlash(h[1], "0.5"),
					}, []world.Op{
						opDel(0, 0, "aaa", "1000"), opDel(0, 1, "aaa", "1000"), opDel(0, 2, "aaa", "1000"),
						opDel(0, h[1], "bbb", "4000000000"), opDel(1, h[0], "bbb", "2000000000"), opSlash(h[0], "0.5"),
					})
				}
				sc.Ops = func(n *engine.Node) []world.Op {
					var ops []world.Op
					s := n.Snap()
					for _, p := range s.Pos {
						if p.Denom == "bbb" {
							ops = append(ops, world.Op{K: world.KUndelegateAll, D: p.D, V: p.V, Denom: "bbb", Class: ClsUser})
						}
					}
					if a, ok := s.Assets["bbb"]; ok && a.TotalTokens.IsZero() {
						ops = append(ops, world.Op{K: world.KGovDelete, Denom: "bbb", Class: ClsGov, Args: map[string]string{"signer": "authority"}})
					} else if !ok {
						for _, v := range []int{0, 1, 2} {
							ops = append(ops, world.Op{K: world.KUndelegate, D: 0, V: v, Denom: "aaa", Amt: "300", Class: ClsUser})
							ops = append(ops, world.Op{K: world.KSlash, V: v, F: "0.5", Class: ClsSlash})
						}
					}
					return ops
				}
				sc.Required = []string{"slash.hit_pending_unbonding", "asset.deleted_after_full_exits_at_unrepresentable_price"}
				return sc
			}
			// the destination of a pending redelegation is worth whole tokens but is held by less than ONE delegator share in total
			// (sole delegator of the destination validator, cut by an earlier 90% slash of the source): tokens are then priced 1:1
			// in shares and the capped slash asks for more shares than exist - the "take all of them" fallback of the callback
			subShare := func(budgets []int, depth int) *engine.Scenario {
				sc := mk("c07-sub-share-destination", budgets, depth)
				// (V2 carries so much of the asset that what a slash of V0 redistributes to V1 is negligible)
				sc.Seeds = [][]world.Op{{opDel(0, 0, "aaa", "10"), opDel(1, 0, "aaa", "1000"), opDel(1, 2, "aaa", "1000000000"),
					opRed(0, 0, 1, "aaa", "6"), opSlash(0, "0.5"), opUnd(0, 1, "aaa", "5"), opUnd(1, 0, "aaa", "300")}}
				sc.Ops = func(n *engine.Node) []world.Op {
					ops := []world.Op{
						{K: world.KUndelegate, D: 1, V: 0, Denom: "aaa", Amt: "3", Class: ClsUser},
						{K: world.KRedelegate, D: 1, V: 0, V2: 2, Denom: "aaa", Amt: "3", Class: ClsUser},
						{K: world.KBlock, Dt: int64(U), Class: ClsBlock},
					}
					for _, f := range []string{"0.05", "0.5", "1"} {
						ops = append(ops, world.Op{K: world.KSlash, V: 0, F: f, Class: ClsSlash})
					}
					return ops
				}
				sc.Required = []string{"slash.hit_pending_unbonding", "slash.hit_pending_redelegation", "slash.with_destination_below_one_delegator_share"}
				return sc
			}
			if tier == "thorough" {
				return []*engine.Scenario{mk("c07-packing", []int{4, 2, 0, 2, 1}, 8), restart([]int{2, 2, 2, 3, 0}, 7), dust([]int{4, 1, 0, 0, 1}, 6), subShare([]int{3, 2, 0, 2, 0}, 6)}
			}
			return []*engine.Scenario{subShare([]int{2, 1, 0, 2, 0}, 5), dust([]int{4, 1, 0, 0, 1}, 6), restart([]int{2, 1, 1, 3, 0}, 7), mk("c07-packing", []int{3, 1, 0, 2, 1}, 5)}
		},
		Assumptions: []string{
			"seed: D0 staked on V0,V1,V2 (aaa) and V0,V1 (bbb), D1 on V0,V2 (aaa); take rate 0 so that share prices move only through slashes",
			"value-level tolerance 1 + 1e-17*T + one unit per pending entry (one floor each)",
		},
	})
}
