package props

import (
	"fmt"
	"math/big"
	"math/bits"
	"time"

	"verifmc/engine"
	"verifmc/world"
)

func c14Step(x *engine.Exec) []engine.Failure {
	if x.Res.Rejected {
		return nil
	}
	ref := x.Next.Ref.(*rewRef)
	prev, next := x.Prev.Snap(), x.Next.Snap()
	var out []engine.Failure
	// an asset leaving its warm-up while module rewards are still pending in x/distribution: the code shares them with
	// the newly started asset at settlement (they accrued before its start)
	for _, den := range next.Denoms {
		a := next.Assets[den]
		startedBefore := !prev.Time.Before(a.RewardStartTime)
		startedNow := !next.Time.Before(a.RewardStartTime)
		if _, existed := prev.Assets[den]; existed && !startedBefore && startedNow {
			x.Cnt.Inc("asset.left_warmup")
			for v := range x.W.Vals {
				pend := false
				for _, amt := range ref.Pending[v] {
					if amt.Sign() > 0 {
						pend = true
					}
				}
				if pend {
					for _, p := range next.Pos {
						if p.V == v {
							ref.Skew[p.Key()] = "warmup-asset-shares-rewards-accrued-before-its-start"
						}
					}
				}
			}
		}
	}
	weightChanged := false
	switch x.Op.K {
	case world.KReimport:
		// a chain restarted from its own export continues the same schedule: weights, ranges, decay parameters and both
		// clocks of every asset are what they were
		if x.Res.Err != nil {
			return []engine.Failure{fail("restart", "error", "genesis export/import failed: %v", x.Res.Err)}
		}
		x.Cnt.Inc("restart")
		var out []engine.Failure
		for _, den := range prev.Denoms {
			a, b := prev.Assets[den], next.Assets[den]
			if a.RewardChangeInterval > 0 && a.LastRewardChangeTime.Before(a.RewardStartTime) {
				x.Cnt.Inc("restart.with_decay_clock_before_reward_start")
			}
			if !a.RewardWeight.Equal(b.RewardWeight) || !a.LastRewardChangeTime.Equal(b.LastRewardChangeTime) || !a.RewardStartTime.Equal(b.RewardStartTime) ||
				!a.RewardChangeRate.Equal(b.RewardChangeRate) || a.RewardChangeInterval != b.RewardChangeInterval ||
				!a.RewardWeightRange.Min.Equal(b.RewardWeightRange.Min) || !a.RewardWeightRange.Max.Equal(b.RewardWeightRange.Max) {
				out = append(out, fail("restart", "schedule-changed", "export/import changed the weight schedule of %s: weight %s -> %s, decay clock %s -> %s, start %s -> %s", den, a.RewardWeight, b.RewardWeight, a.LastRewardChangeTime, b.LastRewardChangeTime, a.RewardStartTime, b.RewardStartTime))
			}
		}
		return out
	case world.KBlock:
		if x.Res.Err != nil {
			return []engine.Failure{fail("endblock", "error", "EndBlocker failed: %v", x.Res.Err)}
		}
		now := prev.Time
		for _, den := range prev.Denoms {
			a, b := prev.Assets[den], next.Assets[den]
			I := a.RewardChangeInterval
			rate := world.Rat(a.RewardChangeRate)
			w := world.Rat(a.RewardWeight)
			L := a.LastRewardChangeTime
			due := I > 0 && rate.Cmp(ratI(1)) != 0 && !L.Add(I).After(now)
			if !due {
				if !a.RewardWeight.Equal(b.RewardWeight) || !a.LastRewardChangeTime.Equal(b.LastRewardChangeTime) {
					out = append(out, fail("decay-schedule", "changed-when-not-due", "%s: weight %s -> %s, clock %s -> %s although no change interval elapsed", den, a.RewardWeight, b.RewardWeight, L.Sub(world.Epoch), b.LastRewardChangeTime.Sub(world.Epoch)))
				}
				if I > 0 && rate.Cmp(ratI(1)) != 0 {
					x.Cnt.Inc("decay.sub_interval")
				}
				continue
			}
			n := int64(now.Sub(L) / I)
			if n >= 2 {
				x.Cnt.Inc("decay.multi_interval")
			} else {
				x.Cnt.Inc("decay.single_interval")
			}
			pw := ratPow(rate, n)
			exact := ratMul(w, pw)
			lo, hi := world.Rat(a.RewardWeightRange.Min), world.Rat(a.RewardWeightRange.Max)
			want := exact
			if want.Cmp(lo) < 0 {
				want = lo
				x.Cnt.Inc("decay.clamped_to_min")
			}
			if want.Cmp(hi) > 0 {
				want = hi
				x.Cnt.Inc("decay.clamped_to_max")
			}
			scale := ratI(1)
			if pw.Cmp(scale) > 0 {
				scale = pw
			}
			if w.Cmp(ratI(1)) > 0 {
				scale = ratMul(scale, w)
			}
			tolW := ratMul(ratMul(ratI(int64(2*bits.Len64(uint64(n))+4)), e18Rat), scale)
			got := world.Rat(b.RewardWeight)
			if absRat(ratSub(got, want)).Cmp(tolW) > 0 {
				out = append(out, fail("decay-amount", "", "%s: weight %s -> %s after %d intervals at rate %s; clamp(w*rate^n) = %s", den, a.RewardWeight, b.RewardWeight, n, a.RewardChangeRate, want.FloatString(18)))
			}
			wantL := L.Add(time.Duration(n) * I)
			if !b.LastRewardChangeTime.Equal(wantL) || b.LastRewardChangeTime.After(now) {
				out = append(out, fail("decay-clock", "", "%s: decay clock +%s -> +%s after %d intervals of %s at block time +%s; expected +%s", den, L.Sub(world.Epoch), b.LastRewardChangeTime.Sub(world.Epoch), n, I, now.Sub(world.Epoch), wantL.Sub(world.Epoch)))
			}
			if !a.RewardWeight.Equal(b.RewardWeight) {
				weightChanged = true
			}
		}
		nDecay := 0
		for _, den := range prev.Denoms {
			if !prev.Assets[den].RewardWeight.Equal(next.Assets[den].RewardWeight) {
				nDecay++
			}
		}
		if nDecay >= 2 {
			x.Cnt.Inc("decay.two_assets_same_block")
		}
	case world.KGovUpdate:
		a, b := prev.Assets[x.Op.Denom], next.Assets[x.Op.Denom]
		if !a.RewardWeight.Equal(b.RewardWeight) {
			weightChanged = true
			x.Cnt.Inc("gov.weight_changed")
		}
		// decay configured on an asset that was not decaying (rate 1 or interval 0): intervals count from now on
		wasOff := a.RewardChangeInterval == 0 || world.Rat(a.RewardChangeRate).Cmp(ratI(1)) == 0
		isOn := b.RewardChangeInterval > 0 && world.Rat(b.RewardChangeRate).Cmp(ratI(1)) != 0
		if wasOff && isOn {
			x.Cnt.Inc("gov.decay_switched_on")
			if a.RewardChangeInterval > 0 {
				x.Cnt.Inc("gov.decay_switched_on_from_rate_1_with_interval")
			}
			if !b.LastRewardChangeTime.Equal(prev.Time) {
				out = append(out, fail("decay-clock", "not-restarted-when-decay-configured", "%s: decay switched on at +%s but the decay clock reads +%s: intervals that elapsed before decay was configured would be applied", x.Op.String(), prev.Time.Sub(world.Epoch), b.LastRewardChangeTime.Sub(world.Epoch)))
			}
		}
	}
	hadPending := false
	for v := range x.W.Vals {
		for _, amt := range ref.Pending[v] {
			if amt.Sign() > 0 {
				hadPending = true
			}
		}
	}
	out = append(out, rewardStep(x, ref, "non-retroactive")...)
	if weightChanged {
		if hadPending {
			x.Cnt.Inc("weight_change.with_rewards_pending_in_distribution")
		}
		// a weight change must settle every validator first: nothing may remain pending for validators with alliance stake
		for v := range x.W.Vals {
			staked := false
			for _, p := range next.Pos {
				if p.V == v {
					staked = true
				}
			}
			for den, amt := range ref.Pending[v] {
				if staked && amt.Cmp(ratI(1)) >= 0 {
					out = append(out, fail("non-retroactive", "unsettled-at-weight-change", "%s changed a reward weight while %s %s of module rewards for v%d were still pending in x/distribution", x.Op.String(), world.RatF(amt), den, v))
				}
			}
		}
	}
	out = append(out, assetPredicate(next)...)
	return out
}

// c14JailStep: full-pipeline variant of the "a weight change settles every validator first" oracle, for validators that
// left the active set (jailed / unbonding) with module rewards still pending in x/distribution.
func c14JailStep(x *engine.Exec) []engine.Failure {
	if x.Res.Rejected {
		return nil
	}
	prev, next := x.Prev.Snap(), x.Next.Snap()
	var out []engine.Failure
	changed := false
	for _, den := range prev.Denoms {
		if !prev.Assets[den].RewardWeight.Equal(next.Assets[den].RewardWeight) {
			changed = true
		}
	}
	if x.Op.K == world.KJail {
		x.Cnt.Inc("validator.jailed")
	}
	if !changed {
		return assetPredicate(next)
	}
	x.Cnt.Inc("weight_change")
	if x.Op.K == world.KBlock && prev.Fee.AmountOf(rewardDenom).IsPositive() {
		// the BeginBlock half of this block transition allocates the fee collector's coins AFTER the weight change of its
		// EndBlock half: what is pending afterwards is new, not unsettled
		x.Cnt.Inc("weight_change.in_block_followed_by_allocation_skipped")
		return assetPredicate(next)
	}
	st := nodeStake(x.Next)
	for v := range x.W.Vals {
		staked := false
		for _, p := range next.Pos {
			if p.V == v {
				staked = true
			}
		}
		if !staked {
			continue
		}
		before := modulePending(x.W, x.Prev.Ctx, v)
		after := modulePending(x.W, x.Next.Ctx, v)
		if b := before[rewardDenom]; b != nil && b.Cmp(ratI(1)) >= 0 {
			x.Cnt.Inc("weight_change.with_rewards_pending_in_distribution")
			if !st.Bonded[v] {
				x.Cnt.Inc("weight_change.with_rewards_pending_for_non_bonded_validator")
			}
		}
		for den, amt := range after {
			if amt.Cmp(ratI(1)) >= 0 {
				out = append(out, fail("non-retroactive", "unsettled-at-weight-change", "%s changed a reward weight while %s %s of module rewards for v%d (bonded=%v) were still pending in x/distribution: they will be split with the new weights", x.Op.String(), world.RatF(amt), den, v, st.Bonded[v]))
			}
		}
	}
	return append(out, assetPredicate(next)...)
}

func c14Config() world.Config {
	cfg := world.DefaultConfig()
	cfg.Assets = []world.AssetCfg{
		{Denom: "aaa", Weight: "1", Min: "0", Max: "5", TakeRate: "0", ChangeRate: "0.5", ChangeInterval: 1 * U},
		{Denom: "bbb", Weight: "2", Min: "1.5", Max: "2", TakeRate: "0", ChangeRate: "0.9", ChangeInterval: 2 * U},
		{Denom: "ccc", Weight: "1", Min: "1", Max: "1", TakeRate: "0", StartOffset: 4 * U},
		// decay switched off through rate == 1 while an interval is configured
		{Denom: "ddd", Weight: "1", Min: "0", Max: "5", TakeRate: "0", ChangeRate: "1", ChangeInterval: 1 * U},
	}
	cfg.DelFunds["ccc"] = "1000000000000"
	cfg.DelFunds["ddd"] = "1000000000000"
	return cfg
}

func init() {
	seed := []world.Op{
		opDel(0, 0, "aaa", "1000000"), opDel(1, 0, "bbb", "1000000"), opDel(1, 1, "aaa", "500000"), opDel(2, 1, "ccc", "1000000"), opDel(2, 0, "ddd", "1000000"),
		opBlock(1),
	}
	register(&Property{
		ID:    "C14",
		Title: "Reward weight lifecycle: bounded, exact decay schedule, not retroactive",
		Scenarios: func(tier string) []*engine.Scenario {
			ops := func(n *engine.Node) []world.Op {
				var ops []world.Op
				s := n.Snap()
				if atBlockStart(n) {
					ops = append(ops, world.Op{K: world.KReward, Denom: rewardDenom, Amt: "1000003", Class: ClsEnv})
				}
				for _, p := range s.Pos {
					if p.D >= 0 {
						ops = append(ops, world.Op{K: world.KClaim, D: p.D, V: p.V, Denom: p.Denom, Class: ClsUser})
					}
				}
				for _, dt := range dts(1, 2, 3, 7) {
					ops = append(ops, world.Op{K: world.KBlock, Dt: int64(dt), Class: ClsBlock})
				}
				// governance: weight, decay parameters, range
				for _, v := range [][6]string{
					{"aaa", "2", "0,5", "0", "0.5", fmt.Sprint(int64(U))},     // weight change
					{"aaa", "1", "0,5", "0", "1.5", fmt.Sprint(int64(2 * U))}, // growth instead of decay
					{"aaa", "1", "0.9,1", "0", "0.5", fmt.Sprint(int64(U))},   // narrow range
					{"bbb", "1.5", "1.5,2", "0", "1", "0"},                    // decay off + weight change
					{"ccc", "1", "1,1", "0", "0.9", fmt.Sprint(int64(U))},     // decay configured on a (1,1) range
					{"ddd", "1", "0,5", "0", "0.5", fmt.Sprint(int64(U))},     // decay switched on for an asset that had rate 1 with an interval
				} {
					var iv int64
					fmt.Sscan(v[5], &iv)
					ops = append(ops, world.Op{K: world.KGovUpdate, Denom: v[0], Class: ClsGov, Args: govArgs("authority", v[1], v[2], v[3], v[4], iv, false)})
				}
				return ops
			}
			// second seed: every position has already claimed once (its reward history has entries), so that claims after a
			// weight change walk the snapshot path with existing indices
			claimed := append(append([]world.Op{}, seed...), opReward(rewardDenom, "1000003"),
				world.Op{K: world.KClaim, D: 0, V: 0, Denom: "aaa"}, world.Op{K: world.KClaim, D: 1, V: 0, Denom: "bbb"},
				world.Op{K: world.KClaim, D: 1, V: 1, Denom: "aaa"}, world.Op{K: world.KClaim, D: 2, V: 0, Denom: "ddd"}, opBlock(1))
			mk := func(name string, budgets []int, depth int) *engine.Scenario {
				return &engine.Scenario{
					Property: "C14", Name: name, Cfg: c14Config(), Stores: world.ModuleStores,
					Seeds: [][]world.Op{seed, claimed}, ClassNames: classNames, Budgets: budgets, MaxDepth: depth,
					NewRef: func(w *world.World, root *engine.Node) engine.Ref { return newRewRef() },
					Ops:    ops, Step: c14Step, SeedStep: true,
					Required: []string{"decay.single_interval", "decay.multi_interval", "decay.sub_interval", "decay.clamped_to_min", "decay.two_assets_same_block", "gov.weight_changed", "weight_change.with_rewards_pending_in_distribution", "claim.with_positive_entitlement", "asset.left_warmup", "gov.decay_switched_on_from_rate_1_with_interval"},
				}
			}
			// full-pipeline scenario: a validator with two assets is jailed while rewards are pending, then a weight changes
			jcfg := world.DefaultConfig()
			jcfg.FullPipeline = true
			jcfg.Assets = []world.AssetCfg{
				{Denom: "aaa", Weight: "1", Min: "0", Max: "5", TakeRate: "0"},
				{Denom: "bbb", Weight: "1", Min: "0", Max: "5", TakeRate: "0", ChangeRate: "0.5", ChangeInterval: 6 * U},
			}
			jseed := []world.Op{opDel(0, 0, "aaa", "1000000"), opDel(1, 0, "bbb", "1000000"), opDel(1, 1, "aaa", "500000"), opBlock(1)}
			jops := func(n *engine.Node) []world.Op {
				var ops []world.Op
				if atBlockStart(n) {
					ops = append(ops, world.Op{K: world.KReward, Denom: rewardDenom, Amt: "9000003", Class: ClsEnv})
				}
				ops = append(ops, world.Op{K: world.KJail, V: 0, Class: ClsEnv}, world.Op{K: world.KUnjail, V: 0, Class: ClsEnv})
				ops = append(ops, world.Op{K: world.KGovUpdate, Denom: "aaa", Class: ClsGov, Args: govArgs("authority", "4", "0,5", "0", "1", 0, false)})
				ops = append(ops, world.Op{K: world.KClaim, D: 0, V: 0, Denom: "aaa", Class: ClsUser})
				ops = append(ops, world.Op{K: world.KBlock, Dt: int64(U), Class: ClsBlock}, world.Op{K: world.KBlock, Dt: int64(3 * U), Class: ClsBlock})
				return ops
			}
			jail := &engine.Scenario{
				Property: "C14", Name: "c14-jailed-validator", Cfg: jcfg, Stores: world.AllStores,
				Seeds: [][]world.Op{jseed}, ClassNames: classNames, Budgets: tierPick(tier, []int{1, 0, 2, 3, 1}, []int{1, 0, 3, 4, 1}), MaxDepth: tierPick(tier, 6, 8),
				Ops: jops, Step: c14JailStep,
				Required: []string{"weight_change", "validator.jailed", "weight_change.with_rewards_pending_for_non_bonded_validator"},
			}
			// the schedule across a restart from a genesis export, in every governance-made configuration (decay switched on
			// during the warm-up, growth, narrow range, decay off) and at every phase of the intervals
			restart := mk("c14-restart", tierPick(tier, []int{0, 0, 1, 3, 1}, []int{0, 0, 2, 4, 2}), tierPick(tier, 5, 8))
			restart.Seeds = [][]world.Op{seed}
			restart.Ops = func(n *engine.Node) []world.Op {
				var out []world.Op
				for _, o := range ops(n) {
					if o.K == world.KGovUpdate || (o.K == world.KBlock && o.Dt <= int64(3*U)) {
						out = append(out, o)
					}
				}
				return append(out, world.Op{K: world.KReimport, Class: ClsEnv})
			}
			restart.Required = []string{"restart", "restart.with_decay_clock_before_reward_start", "decay.single_interval"}
			// "before its reward start time an asset ... is not charged the take rate": the only taxed asset is the one that warms
			// up (rate 0.5, start +5u, claim interval 2u), staked from the first block on; judged by the take-rate oracle of C09
			// (no deduction and a clock that keeps up while nothing is chargeable, then exactly the intervals since the start)
			wtr := &engine.Scenario{
				Property: "C14", Name: "c14-warmup-take-rate", Cfg: c09Cfg("0", "0", 2*U, true), Stores: world.ModuleStores,
				Seeds:      [][]world.Op{{opDel(0, 0, "ccc", "1000000"), opDel(1, 1, "aaa", "1000")}},
				ClassNames: classNames, Budgets: tierPick(tier, []int{0, 0, 0, 6, 0}, []int{0, 0, 0, 8, 0}), MaxDepth: tierPick(tier, 6, 8),
				NewRef: func(w *world.World, root *engine.Node) engine.Ref { return &takeRef{lastDeposit: map[string]int64{}} },
				Ops: func(n *engine.Node) []world.Op {
					var ops []world.Op // (no deposits: C09 owns the retroactivity clauses and their known findings)
					for _, dt := range dts(1, 2, 3) {
						ops = append(ops, world.Op{K: world.KBlock, Dt: int64(dt), Class: ClsBlock})
					}
					return ops
				},
				Step: c09Step, SeedStep: true,
				Required: []string{"endblock.sub_interval", "asset.charged"},
			}
			// change intervals that are not whole seconds (100 ms, 300 ms: not representable in binary floating point) and block
			// steps that are exact multiples of them: the interval count is an exact integer division of durations
			scfg := world.DefaultConfig()
			scfg.Assets = []world.AssetCfg{
				{Denom: "aaa", Weight: "1", Min: "0", Max: "5", TakeRate: "0", ChangeRate: "0.5", ChangeInterval: 100 * time.Millisecond},
				{Denom: "bbb", Weight: "2", Min: "0", Max: "5", TakeRate: "0", ChangeRate: "0.9", ChangeInterval: 300 * time.Millisecond},
			}
			subsec := &engine.Scenario{
				Property: "C14", Name: "c14-sub-second-interval", Cfg: scfg, Stores: world.ModuleStores,
				Seeds:      [][]world.Op{{opDel(0, 0, "aaa", "1000000"), opDel(1, 0, "bbb", "1000000"), world.Op{K: world.KBlock, Dt: int64(100 * time.Millisecond), Class: ClsBlock}}},
				ClassNames: classNames, Budgets: tierPick(tier, []int{0, 0, 0, 4, 0}, []int{0, 0, 0, 6, 0}), MaxDepth: tierPick(tier, 4, 6),
				NewRef: func(w *world.World, root *engine.Node) engine.Ref { return newRewRef() },
				Ops: func(n *engine.Node) []world.Op {
					var ops []world.Op
					for _, ms := range []int{100, 300, 700, 900, 1250} {
						ops = append(ops, world.Op{K: world.KBlock, Dt: int64(time.Duration(ms) * time.Millisecond), Class: ClsBlock})
					}
					return ops
				},
				Step: c14Step, SeedStep: true,
				Required: []string{"decay.single_interval", "decay.multi_interval", "decay.sub_interval"},
			}
			if tier == "thorough" {
				return []*engine.Scenario{subsec, mk("c14-lifecycle", []int{2, 0, 2, 4, 2}, 9), jail, restart, wtr}
			}
			return []*engine.Scenario{subsec, jail, restart, wtr, mk("c14-lifecycle", []int{2, 0, 1, 3, 1}, 5)}
		},
		Assumptions: []string{
			"assets: aaa decays x0.5 every 1u in (0,5); bbb decays x0.9 every 2u in (1.5,2); ccc warms up until +4u on range (1,1); governance changes weight, rate (0.5/1/1.5), interval (0/1u/2u) and range; block steps 1u/2u/3u/7u",
			"decay tolerance (2*bitlen(n)+4)*1e-18*max(1,rate^n)*max(1,w) before clamping; non-retroactivity through the exact reward reference of C13 (weights at allocation time)",
		},
	})
	_ = big.NewInt
}
