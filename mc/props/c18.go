package props

import (
	"bytes"
	"crypto/sha256"
	"fmt"
	"strings"

	sdk "github.com/cosmos/cosmos-sdk/types"

	"github.com/terra-money/alliance/x/alliance/keeper"
	"github.com/terra-money/alliance/x/alliance/types"

	"verifmc/engine"
	"verifmc/world"
)

func exportBytes(w *world.World, ctx sdk.Context) []byte {
	gs := w.App.AllianceKeeper.ExportGenesis(ctx)
	return w.App.AppCodec().MustMarshal(gs)
}

// reimport wipes the alliance store on a branch of ctx and imports the exported genesis.
func reimport(w *world.World, ctx sdk.Context) (sdk.Context, []byte, error) {
	gs := w.App.AllianceKeeper.ExportGenesis(ctx)
	first := w.App.AppCodec().MustMarshal(gs)
	c, _ := ctx.CacheContext()
	st := c.KVStore(w.App.GetKey("alliance"))
	var keys [][]byte
	it := st.Iterator(nil, nil)
	for ; it.Valid(); it.Next() {
		keys = append(keys, append([]byte{}, it.Key()...))
	}
	it.Close()
	for _, k := range keys {
		st.Delete(k)
	}
	var err error
	func() {
		defer func() {
			if r := recover(); r != nil {
				err = fmt.Errorf("InitGenesis panicked: %v", r)
			}
		}()
		w.App.AllianceKeeper.InitGenesis(c, gs)
	}()
	return c, first, err
}

// observe renders everything a user / the rest of the chain can see of the module in one state.
func c18Observe(w *world.World, ctx sdk.Context) (string, []byte) {
	var b strings.Builder
	qs := keeper.NewQueryServerImpl(w.App.AllianceKeeper)
	for d := range w.Dels {
		if r, err := qs.AllianceUnbondingsByDelegator(ctx, &types.QueryAllianceUnbondingsByDelegatorRequest{DelegatorAddr: w.Dels[d].String()}); err != nil {
			fmt.Fprintf(&b, "U%d:err %v;", d, err)
		} else {
			fmt.Fprintf(&b, "U%d:%v;", d, r.Unbondings)
		}
		if r, err := qs.AllianceRedelegationsByDelegator(ctx, &types.QueryAllianceRedelegationsByDelegatorRequest{DelegatorAddr: w.Dels[d].String()}); err != nil {
			fmt.Fprintf(&b, "R%d:err %v;", d, err)
		} else {
			fmt.Fprintf(&b, "R%d:%v;", d, r.Redelegations)
		}
		if r, err := qs.AlliancesDelegation(ctx, &types.QueryAlliancesDelegationsRequest{DelegatorAddr: w.Dels[d].String()}); err != nil {
			fmt.Fprintf(&b, "D%d:err %v;", d, err)
		} else {
			for _, dr := range r.Delegations {
				fmt.Fprintf(&b, "D%d:%s/%s=%s;", d, dr.Delegation.ValidatorAddress[len(dr.Delegation.ValidatorAddress)-4:], dr.Delegation.Denom, dr.Balance.Amount)
			}
		}
	}
	h := w.Hash(ctx, []string{"bank", "staking", "distribution"})
	fmt.Fprintf(&b, "H%x", h[:8])
	return b.String(), exportBytes(w, ctx)
}

// c18Cheap hashes bank, staking, distribution and the alliance store without prefixes 0x13 and 0x23.
func c18Cheap(w *world.World, ctx sdk.Context) [32]byte {
	h := sha256.New()
	o := w.Hash(ctx, []string{"bank", "staking", "distribution"})
	h.Write(o[:])
	st := ctx.KVStore(w.App.GetKey("alliance"))
	it := st.Iterator(nil, nil)
	for ; it.Valid(); it.Next() {
		k := it.Key()
		if k[0] == 0x13 || k[0] == 0x23 {
			continue
		}
		h.Write(k)
		h.Write([]byte{0})
		h.Write(it.Value())
		h.Write([]byte{1})
	}
	it.Close()
	var out [32]byte
	copy(out[:], h.Sum(nil))
	return out
}

// reduced continuation alphabet (quick tier; thorough uses it at depth 3 and the full one at depth 2)
var c18ContSmall = []world.Op{
	{K: world.KSlash, V: 0, F: "0.5"}, {K: world.KSlash, V: 1, F: "0.5"},
	{K: world.KBlock, Dt: int64(U)}, {K: world.KBlock, Dt: int64(7 * U)},
	{K: world.KUndelegate, D: 0, V: 0, Denom: "aaa", Amt: "100"},
	{K: world.KRedelegate, D: 0, V: 1, V2: 2, Denom: "aaa", Amt: "100"},
	{K: world.KClaim, D: 0, V: 0, Denom: "aaa"},
	{K: world.KDelegate, D: 1, V: 1, Denom: "ccc", Amt: "100"},
}

var c18Cont = []world.Op{
	{K: world.KSlash, V: 0, F: "0.5"}, {K: world.KSlash, V: 1, F: "0.5"}, {K: world.KSlash, V: 2, F: "0.5"},
	{K: world.KBlock, Dt: int64(U)}, {K: world.KBlock, Dt: int64(3 * U)}, {K: world.KBlock, Dt: int64(7 * U)},
	{K: world.KUndelegate, D: 0, V: 0, Denom: "aaa", Amt: "100"}, {K: world.KUndelegate, D: 0, V: 1, Denom: "aaa", Amt: "100"},
	{K: world.KRedelegate, D: 0, V: 1, V2: 2, Denom: "aaa", Amt: "100"}, {K: world.KRedelegate, D: 0, V: 2, V2: 0, Denom: "aaa", Amt: "100"},
	{K: world.KClaim, D: 0, V: 0, Denom: "aaa"}, {K: world.KClaim, D: 1, V: 2, Denom: "aaa"},
	{K: world.KDelegate, D: 1, V: 1, Denom: "ccc", Amt: "100"}, {K: world.KDelegate, D: 1, V: 0, Denom: "aaa", Amt: "100"},
	{K: world.KReward, Denom: "stake", Amt: "100003"},
}

// lockstep runs every continuation sequence up to depth on the original and on the re-imported state.
func c18Lockstep(x *engine.Exec, a, b sdk.Context, depth int, trace string, out *[]engine.Failure, classify func(string) string) {
	c18LockstepWith(x, c18Cont, a, b, depth, trace, out, classify)
}

func c18LockstepWith(x *engine.Exec, alphabet []world.Op, a, b sdk.Context, depth int, trace string, out *[]engine.Failure, classify func(string) string) {
	w := x.W
	for _, op := range alphabet {
		if op.K == world.KReward && trace != "" && !strings.HasSuffix(trace, "s) ;") {
			// reward inflow only at a block start
			continue
		}
		ra, rb := w.Exec(a, op), w.Exec(b, op)
		x.Cnt.Inc("lockstep.continuation_steps")
		ea, eb := "", ""
		if ra.Err != nil {
			ea = ra.Err.Error()
		}
		if rb.Err != nil {
			eb = rb.Err.Error()
		}
		t := trace + " " + op.String() + " ;"
		if ea != eb {
			*out = append(*out, fail("lockstep-result", classify(t), "after re-import, continuation [%s] returns %q on the original and %q on the imported state", t, ea, eb))
			continue
		}
		// fast path: if bank/staking/distribution and the alliance store (minus the rebalance flag 0x13 and the rebuilt
		// completion queue 0x23, which the export does not carry) are byte-identical, every query answer and the export are
		// identical too; only otherwise are the real observables computed and compared
		if c18Cheap(w, ra.Ctx) == c18Cheap(w, rb.Ctx) {
			x.Cnt.Inc("lockstep.identical_stores")
			if depth > 1 && !ra.Rejected {
				c18LockstepWith(x, alphabet, ra.Ctx, rb.Ctx, depth-1, t, out, classify)
			}
			continue
		}
		x.Cnt.Inc("lockstep.compared_by_observables")
		oa, xa := c18Observe(w, ra.Ctx)
		ob, xb := c18Observe(w, rb.Ctx)
		if oa != ob {
			*out = append(*out, fail("lockstep-observables", classify(t), "after re-import, continuation [%s] leads to different observables:\n      original: %s\n      imported: %s", t, oa, ob))
			continue
		}
		if !bytes.Equal(xa, xb) {
			*out = append(*out, fail("lockstep-export", classify(t), "after re-import, continuation [%s] leads to different exported state", t))
			continue
		}
		if depth > 1 && !ra.Rejected {
			c18LockstepWith(x, alphabet, ra.Ctx, rb.Ctx, depth-1, t, out, classify)
		}
	}
}

func c18Step(depth int, alphabet []world.Op) func(x *engine.Exec) []engine.Failure {
	return func(x *engine.Exec) []engine.Failure {
		if x.Res.Rejected || x.Op.K != world.KBlock || x.Res.Err != nil {
			return nil
		}
		w := x.W
		s := x.Next.Snap()
		x.Cnt.Inc("boundary_states")
		if len(s.Unb) > 0 {
			x.Cnt.Inc("boundary.with_pending_unbondings")
		}
		if len(s.Redels) > 0 {
			x.Cnt.Inc("boundary.with_pending_redelegations")
		}
		if s.NSnapshots > 0 {
			x.Cnt.Inc("boundary.with_weight_change_snapshots")
			// delegations of one validator and denom whose last claims lie at different heights (one of them may need a
			// snapshot the other has passed)
			hs := map[string]uint64{}
			for _, p := range s.Pos {
				k := fmt.Sprintf("%d/%s", p.V, p.Denom)
				if h, ok := hs[k]; ok && h != p.Raw.LastRewardClaimHeight {
					x.Cnt.Inc("boundary.with_claim_heights_on_both_sides_of_a_snapshot")
					break
				}
				hs[k] = p.Raw.LastRewardClaimHeight
			}
		}
		if s.Flag {
			x.Cnt.Inc("boundary.with_rebalance_flag_set")
		}
		if a, ok := s.Assets["zzz"]; ok && a.TotalTokens.IsPositive() && s.Time.Before(a.RewardStartTime) {
			x.Cnt.Inc("boundary.with_staked_warmup_asset_created_by_governance")
		}
		nB := map[string]int{}
		for _, u := range s.Unb {
			nB[fmt.Sprintf("%d@%d", u.D, u.Completion.UnixNano())]++
		}
		for _, n := range nB {
			if n >= 2 {
				x.Cnt.Inc("boundary.with_shared_bucket")
				break
			}
		}
		// K1: a merged redelegation record is exported with its first source only, the source index of the other sources
		// is lost by the import; the ONLY way this can show is a slash of such a lost source while the record is pending.
		// A divergence is attributed to it only if the failing continuation contains exactly such a slash.
		lost := map[int]bool{}
		for _, ix := range s.RedelIdx {
			for _, r := range s.Redels {
				if r.D == ix.D && r.Denom == ix.Denom && r.Dst == ix.Dst && r.Completion.Equal(ix.Completion) && r.Src != ix.Src {
					lost[ix.Src] = true
				}
			}
		}
		classify := func(trace string) string {
			for v := range lost {
				if strings.Contains(trace, fmt.Sprintf("slash(v%d,", v)) {
					return "redelegation-record-merged-sources"
				}
			}
			return ""
		}
		var out []engine.Failure
		imp, first, err := reimport(w, x.Next.Ctx)
		if err != nil {
			return []engine.Failure{fail("import", "", "%v", err)}
		}
		if second := exportBytes(w, imp); !bytes.Equal(first, second) {
			out = append(out, fail("second-export", classify(""), "exporting the re-imported state does not reproduce the first export (%d vs %d bytes)", len(first), len(second)))
		}
		c18LockstepWith(x, alphabet, x.Next.Ctx, imp, depth, "", &out, classify)
		// keep one failure per oracle/cause
		seen := map[string]bool{}
		var uniq []engine.Failure
		for _, f := range out {
			k := f.Oracle + "|" + f.Cause
			if !seen[k] {
				seen[k] = true
				uniq = append(uniq, f)
			}
		}
		return uniq
	}
}

func c18Config() world.Config {
	cfg := world.DefaultConfig()
	cfg.Assets = []world.AssetCfg{
		{Denom: "aaa", Weight: "1", Min: "0", Max: "5", TakeRate: "0.3", ChangeRate: "0.5", ChangeInterval: 2 * U},
		{Denom: "bbb", Weight: "1", Min: "0", Max: "5", TakeRate: "0"},
		{Denom: "ccc", Weight: "1", Min: "0", Max: "5", TakeRate: "0", StartOffset: 6 * U},
	}
	cfg.DelFunds["ccc"] = "1000000000000"
	return cfg
}

func init() {
	seed := []world.Op{
		opDel(0, 0, "aaa", "100000"), opDel(0, 1, "aaa", "100000"), opDel(0, 2, "aaa", "100000"), opDel(0, 0, "bbb", "100000"),
		opDel(1, 0, "aaa", "100000"), opDel(1, 2, "aaa", "50000"), opDel(2, 1, "ccc", "100000"),
		opBlock(1),
	}
	register(&Property{
		ID:    "C18",
		Title: "Genesis export/import yields an observationally equivalent module",
		Scenarios: func(tier string) []*engine.Scenario {
			ops := func(n *engine.Node) []world.Op {
				var ops []world.Op
				amt := "30000"
				for _, v := range []int{0, 1} {
					ops = append(ops, world.Op{K: world.KUndelegate, D: 0, V: v, Denom: "aaa", Amt: amt, Class: ClsUser})
				}
				ops = append(ops, world.Op{K: world.KUndelegate, D: 0, V: 0, Denom: "bbb", Amt: amt, Class: ClsUser})
				for _, pr := range [][2]int{{0, 2}, {1, 2}, {0, 1}} {
					ops = append(ops, world.Op{K: world.KRedelegate, D: 0, V: pr[0], V2: pr[1], Denom: "aaa", Amt: amt, Class: ClsUser})
				}
				ops = append(ops, world.Op{K: world.KRedelegate, D: 1, V: 0, V2: 2, Denom: "aaa", Amt: amt, Class: ClsUser})
				ops = append(ops, world.Op{K: world.KSlash, V: 0, F: "0.333333333333333333", Class: ClsSlash})
				if atBlockStart(n) {
					ops = append(ops, world.Op{K: world.KReward, Denom: "stake", Amt: "100003", Class: ClsEnv})
				}
				for _, dt := range dts(1, 3) {
					ops = append(ops, world.Op{K: world.KBlock, Dt: int64(dt), Class: ClsBlock})
				}
				return ops
			}
			mk := func(name string, cfg world.Config, budgets []int, depth, cont int, alphabet []world.Op, req []string) *engine.Scenario {
				return &engine.Scenario{
					Property: "C18", Name: name, Cfg: cfg, Stores: world.ModuleStores,
					Seeds: [][]world.Op{seed}, ClassNames: classNames, Budgets: budgets, MaxDepth: depth,
					Ops: ops, Step: c18Step(cont, alphabet), SeedStep: true,
					Required: req,
					Note:     fmt.Sprintf("at every block-boundary state: export, wipe, import, re-export, then all continuation sequences of depth <= %d from %d operations in lock-step", cont, len(alphabet)),
				}
			}
			reqAll := []string{"boundary_states", "boundary.with_pending_unbondings", "boundary.with_pending_redelegations", "boundary.with_weight_change_snapshots", "boundary.with_shared_bucket", "boundary.with_rebalance_flag_set", "lockstep.continuation_steps"}
			// second configuration: no decaying asset, so that nothing but the warm-up asset keeps the rebalance flag alive
			warm := c18Config()
			warm.Assets[0].ChangeRate, warm.Assets[0].ChangeInterval = "", 0
			warm.Assets[2].StartOffset = 4 * U
			reqWarm := []string{"boundary_states", "boundary.with_rebalance_flag_set", "lockstep.continuation_steps"}
			// reward histories: two delegators of one validator and denom with different claim heights around weight-change
			// snapshots (aaa decays every 2u, bbb's weight is changed by governance); continuations bring more rewards and let
			// either of them claim - every payout must be the same unit for unit
			rcfg := c18Config()
			rcfg.Assets[0].TakeRate = "0"
			// an odd native stake per validator: after a halving of a weight the voting-power targets are not whole numbers, so a
			// validator can sit a fraction of a token above its target (a rebalance that moves nothing)
			rcfg.NativeStake = 1000003
			// no warming-up asset here: while one exists the module re-queues a rebalance in every block, and the rebalance that
			// InitGenesis queues on the imported side would never be the only one
			rcfg.Assets = rcfg.Assets[:2]
			rcfg.Assets[0].ChangeInterval = 4 * U
			rewardOps := func(n *engine.Node) []world.Op {
				var ops []world.Op
				for _, p := range [][3]any{{0, 0, "aaa"}, {1, 0, "aaa"}, {0, 0, "bbb"}} {
					ops = append(ops, world.Op{K: world.KClaim, D: p[0].(int), V: p[1].(int), Denom: p[2].(string), Class: ClsUser})
				}
				if atBlockStart(n) {
					ops = append(ops, world.Op{K: world.KReward, Denom: "stake", Amt: "100003", Class: ClsEnv}, world.Op{K: world.KReward, Denom: "stake", Amt: "9", Class: ClsEnv})
				}
				if a, ok := n.Snap().Assets["bbb"]; ok {
					ops = append(ops, world.Op{K: world.KGovUpdate, Denom: "bbb", Class: ClsGov, Args: govArgs("authority", "2", "0,5", a.TakeRate.String(), "1", 0, false)})
				}
				for _, dt := range dts(1, 2) {
					ops = append(ops, world.Op{K: world.KBlock, Dt: int64(dt), Class: ClsBlock})
				}
				return ops
			}
			rewardCont := []world.Op{
				{K: world.KBlock, Dt: int64(2 * U)},
				{K: world.KReward, Denom: "stake", Amt: "100003"}, {K: world.KReward, Denom: "stake", Amt: "9"},
				{K: world.KClaim, D: 0, V: 0, Denom: "aaa"}, {K: world.KClaim, D: 1, V: 0, Denom: "aaa"}, {K: world.KClaim, D: 0, V: 0, Denom: "bbb"},
			}
			rewards := func(budgets []int, depth, cont int) *engine.Scenario {
				sc := mk("c18-reward-history", rcfg, budgets, depth, cont, rewardCont, []string{"boundary_states", "boundary.with_weight_change_snapshots", "lockstep.continuation_steps", "boundary.with_claim_heights_on_both_sides_of_a_snapshot"})
				base := []world.Op{opDel(0, 0, "aaa", "100000"), opDel(1, 0, "aaa", "100000"), opDel(0, 0, "bbb", "70000"), opDel(1, 0, "bbb", "30000"), opBlock(1)}
				// second seed: aaa's weight was halved at +4u (the rebalance unbonded down to a fractional target), the rebalance
				// re-queued by the staking hooks has been consumed at +5u: a quiet chain with a validator half a token above target
				sc.Seeds = [][]world.Op{base, append(append([]world.Op{}, base...), opBlock(3), opBlock(1), opBlock(1))}
				sc.Ops = rewardOps
				return sc
			}
			// the first alliance ever: whitelisted by governance with a warm-up period on a chain without any alliance state (no
			// validator record exists yet), staked during the warm-up, nothing else happening until its rewards start
			fcfg := world.DefaultConfig()
			fcfg.Assets = nil
			fcfg.RewardDelay = 4 * U
			fcfg.DelFunds["zzz"] = "1000000000"
			first := mk("c18-first-alliance", fcfg, tierPick(tier, []int{1, 0, 0, 3, 1}, []int{2, 0, 0, 4, 1}), tierPick(tier, 5, 7), 2, []world.Op{
				{K: world.KBlock, Dt: int64(U)}, {K: world.KBlock, Dt: int64(7 * U)}, {K: world.KDelegate, D: 1, V: 1, Denom: "zzz", Amt: "100"},
			}, []string{"boundary_states", "lockstep.continuation_steps", "boundary.with_staked_warmup_asset_created_by_governance"})
			first.Seeds = [][]world.Op{nil}
			first.Ops = func(n *engine.Node) []world.Op {
				ops := []world.Op{{K: world.KBlock, Dt: int64(U), Class: ClsBlock}, {K: world.KBlock, Dt: int64(3 * U), Class: ClsBlock}}
				if _, ok := n.Snap().Assets["zzz"]; !ok {
					ops = append(ops, world.Op{K: world.KGovCreate, Denom: "zzz", Class: ClsGov, Args: govArgs("authority", "0.5", "0,5", "0", "1", 0, false)})
				} else {
					ops = append(ops, world.Op{K: world.KDelegate, D: 0, V: 0, Denom: "zzz", Amt: "1000000", Class: ClsUser})
				}
				return ops
			}
			if tier == "thorough" {
				return []*engine.Scenario{
					first,
					rewards([]int{2, 0, 2, 4, 1}, 8, 3),
					mk("c18-genesis", c18Config(), []int{3, 1, 1, 3, 0}, 6, 2, c18Cont, reqAll),
					mk("c18-genesis-deep-continuations", c18Config(), []int{2, 1, 1, 2, 0}, 4, 3, c18ContSmall, reqAll),
					mk("c18-warmup-flag", warm, []int{1, 0, 0, 2, 0}, 3, 3, c18ContSmall, reqWarm),
				}
			}
			return []*engine.Scenario{
				first,
				mk("c18-genesis", c18Config(), []int{2, 1, 1, 2, 0}, 4, 2, c18ContSmall, reqAll),
				mk("c18-warmup-flag", warm, []int{1, 0, 0, 1, 0}, 2, 2, c18ContSmall, reqWarm),
				rewards([]int{1, 0, 2, 3, 1}, 6, 2),
			}
		},
		Assumptions: []string{
			"boundary states: every state right after a block transition of the explored histories (pending unbondings in shared buckets, pending/merged redelegations, partially slashed entries, weight-change snapshots of a decaying asset, a warm-up asset keeping the rebalance flag set, reward histories)",
			"lock-step observables per continuation step: result/error string, unbonding/redelegation/delegation query answers for every delegator, hash of the bank, staking and distribution stores, and the exported genesis bytes; raw alliance store bytes are not compared (the rebuilt redelegation queue legitimately holds duplicates)",
		},
	})
}
