package props

import (
	"fmt"
	"math/big"
	"sort"
	"strings"
	"time"

	"verifmc/engine"
	"verifmc/world"
)

// takeRef remembers, per asset, when stake was last deposited (for the non-retroactivity oracle).
type takeRef struct {
	lastDeposit map[string]int64 // unix nano of the latest successful delegate per denom
	prevEnd     int64            // block time of the previous EndBlocker run (0 = none yet)
}

func (t *takeRef) Clone() engine.Ref {
	n := &takeRef{lastDeposit: map[string]int64{}, prevEnd: t.prevEnd}
	for k, v := range t.lastDeposit {
		n.lastDeposit[k] = v
	}
	return n
}
func (t *takeRef) Digest() []byte {
	ks := make([]string, 0, len(t.lastDeposit))
	for k, v := range t.lastDeposit {
		ks = append(ks, fmt.Sprintf("%s=%d", k, v))
	}
	sort.Strings(ks)
	return []byte(fmt.Sprintf("%s|%d", strings.Join(ks, ";"), t.prevEnd))
}

var e18Rat = new(big.Rat).SetFrac(big.NewInt(1), new(big.Int).Exp(big.NewInt(10), big.NewInt(18), nil))

func ratPow(b *big.Rat, n int64) *big.Rat {
	r := ratI(1)
	for i := int64(0); i < n; i++ {
		r = ratMul(r, b)
	}
	return r
}

func c09Step(x *engine.Exec) []engine.Failure {
	ref := x.Next.Ref.(*takeRef)
	if x.Res.Rejected {
		return nil
	}
	prev, next := x.Prev.Snap(), x.Next.Snap()
	var out []engine.Failure
	if x.Op.K != world.KBlock && x.Op.K != world.KGovParams && !prev.Params.LastTakeRateClaimTime.IsZero() && !prev.Params.LastTakeRateClaimTime.Equal(next.Params.LastTakeRateClaimTime) {
		// the clock is one module-wide value: it advances by whole intervals inside the end-of-block deduction (or is set by a
		// governance params update, or started from the unset value); nothing else may move it, or assets are not charged for
		// intervals that did elapse
		out = append(out, fail("clock", "moved-outside-deduction", "%s moved the take-rate clock %s -> %s", x.Op.String(), prev.Params.LastTakeRateClaimTime, next.Params.LastTakeRateClaimTime))
	}
	if x.Op.K == world.KGovUpdate {
		if a, ok := prev.Assets[x.Op.Denom]; ok && a.TakeRate.IsZero() && a.TotalTokens.IsPositive() && next.Assets[x.Op.Denom].TakeRate.IsPositive() {
			x.Cnt.Inc("gov.rate_raised_from_zero_on_staked_asset")
		}
	}
	switch x.Op.K {
	case world.KDelegate:
		ref.lastDeposit[x.Op.Denom] = prev.Time.UnixNano()
		return out
	case world.KGovParams:
		// governance moved the clock or the interval: charging for the past is then its decision, not the module's;
		// deposits made before it are exempt from the non-retroactivity oracle
		ref.lastDeposit = map[string]int64{}
		ref.prevEnd = 0
		return nil
	case world.KBlock:
	default:
		// no other transition may move the staked totals through the take-rate path
		return out
	}
	defer func() { ref.prevEnd = prev.Time.UnixNano() }()
	if x.Res.Err != nil {
		out = append(out, fail("endblock", "error", "EndBlocker failed: %v", x.Res.Err))
		return out
	}
	now := prev.Time
	L, I := prev.Params.LastTakeRateClaimTime, prev.Params.TakeRateClaimInterval
	L2 := next.Params.LastTakeRateClaimTime
	feeDelta := func(den string) *big.Int {
		return new(big.Int).Sub(next.Fee.AmountOf(den).BigInt(), prev.Fee.AmountOf(den).BigInt())
	}
	custodyDrop := func(den string) *big.Int {
		// custody also pays matured unbondings in EndBlocker: this scenario never undelegates amounts that mature
		// unnoticed - the payouts are added back from the delegators' balance deltas
		paid := new(big.Int)
		for d := range next.DelBal {
			paid.Add(paid, new(big.Int).Sub(next.DelBal[d].AmountOf(den).BigInt(), prev.DelBal[d].AmountOf(den).BigInt()))
		}
		drop := new(big.Int).Sub(prev.Custody.AmountOf(den).BigInt(), next.Custody.AmountOf(den).BigInt())
		return drop.Sub(drop, paid)
	}
	unchanged := func(reason string) {
		for _, den := range prev.Denoms {
			if !prev.Assets[den].TotalTokens.Equal(next.Assets[den].TotalTokens) || feeDelta(den).Sign() != 0 {
				out = append(out, fail("schedule", "deduction-when-none-due", "%s: %s total %s -> %s, fee collector +%s", reason, den, prev.Assets[den].TotalTokens, next.Assets[den].TotalTokens, feeDelta(den)))
			}
		}
	}
	if L.IsZero() {
		x.Cnt.Inc("endblock.clock_unset")
		unchanged("take-rate clock unset")
		if !L2.Equal(now) {
			out = append(out, fail("clock", "unset-clock-not-started", "clock was unset; expected it to start at block time %s, got %s", now, L2))
		}
		return out
	}
	if I <= 0 {
		return out // C17's business (division by zero); nothing to compare against
	}
	if !now.After(L.Add(I)) {
		x.Cnt.Inc("endblock.sub_interval")
		unchanged("block time not after clock+interval")
		if !L2.Equal(L) {
			out = append(out, fail("clock", "moved-without-deduction", "clock moved %s -> %s although no interval boundary was crossed", L, L2))
		}
		return out
	}
	n := int64(now.Sub(L) / I)
	if n >= 2 {
		x.Cnt.Inc("endblock.multi_interval")
	} else {
		x.Cnt.Inc("endblock.single_interval")
	}
	sent := false
	chargeable := 0
	for _, den := range prev.Denoms {
		a, a2 := prev.Assets[den], next.Assets[den]
		T, T2 := a.TotalTokens, a2.TotalTokens
		r := world.Rat(a.TakeRate)
		started := !now.Before(a.RewardStartTime)
		if !T.IsPositive() || r.Sign() == 0 || !started {
			if !T.Equal(T2) || feeDelta(den).Sign() != 0 {
				c := "charged-at-rate-zero"
				if !started {
					c = "charged-before-start"
				}
				out = append(out, fail("exemption", c, "%s (rate %s, started=%v): total %s -> %s", den, a.TakeRate, started, T, T2))
			}
			if !started && T.IsPositive() {
				x.Cnt.Inc("asset.warmup_with_stake_not_charged")
			}
			continue
		}
		chargeable++
		exact := ratMul(world.RatInt(T), ratPow(ratSub(ratI(1), r), n))
		eps := ratMul(ratMul(ratI(n+2), e18Rat), world.RatInt(T))
		lo, hi := world.Floor(ratSub(exact, eps)), world.Floor(ratAdd(exact, eps))
		okAmount := T2.BigInt().Cmp(lo) >= 0 && T2.BigInt().Cmp(hi) <= 0
		dustStop := ratSub(exact, eps).Cmp(ratI(1)) <= 0 && T2.Equal(T) // "stop reducing at <= 1": total left alone
		if dustStop {
			x.Cnt.Inc("asset.dust_only_not_reduced")
		}
		if !okAmount && !dustStop {
			out = append(out, fail("amount", "wrong-total", "%s: total %s -> %s after %d intervals at rate %s; floor(T*(1-r)^n) = %s", den, T, T2, n, a.TakeRate, world.Floor(exact)))
		}
		if T.IsPositive() && !T2.IsPositive() {
			out = append(out, fail("amount", "driven-to-zero", "%s: total %s -> %s", den, T, T2))
		}
		want := new(big.Int).Sub(T.BigInt(), T2.BigInt())
		if feeDelta(den).Cmp(want) != 0 || custodyDrop(den).Cmp(want) != 0 {
			out = append(out, fail("transfer", "not-exact", "%s: total dropped by %s, fee collector +%s, custody -%s", den, want, feeDelta(den), custodyDrop(den)))
		}
		if want.Sign() > 0 {
			sent = true
			x.Cnt.Inc("asset.charged")
			// non-retroactivity: whole intervals that elapsed between the clock and the latest deposit must not be charged
			if td, ok := ref.lastDeposit[den]; ok && td > L.UnixNano() {
				if k := (td - L.UnixNano()) / int64(I); k >= 1 {
					cause := "block-gap-longer-than-interval"
					if ref.prevEnd != 0 && ref.prevEnd-L.UnixNano() >= int64(I) {
						cause = "clock-behind-at-previous-block-end"
					}
					out = append(out, fail("retroactive", cause, "%s: deposit at +%s is charged for %d intervals counted from the clock +%s; %d whole interval(s) had elapsed before the deposit", den, time.Unix(0, td).Sub(world.Epoch), n, L.Sub(world.Epoch), k))
				}
			}
		}
		// every position shrinks by the same proportion: shares untouched, exact value scales by T2/T
		for _, p := range prev.Pos {
			if p.Denom != den {
				continue
			}
			np, ok := next.FindPos(p.D, p.V, p.Denom)
			if !ok || np.Shares.Cmp(p.Shares) != 0 {
				out = append(out, fail("proportional", "shares-changed", "%s: delegation shares of %s changed by the deduction", den, p.Key()))
				continue
			}
			if ratMul(np.Value, world.RatInt(T)).Cmp(ratMul(p.Value, world.RatInt(T2))) != 0 {
				out = append(out, fail("proportional", "value-not-scaled", "%s: %s value %s -> %s, not scaled by %s/%s", den, p.Key(), world.RatF(p.Value), world.RatF(np.Value), T2, T))
			}
		}
	}
	wantL := L.Add(time.Duration(n) * I)
	switch {
	case sent:
		if !L2.Equal(wantL) || L2.After(now) {
			out = append(out, fail("clock", "wrong-advance", "clock %s -> %s after %d intervals of %s; expected %s (block time %s)", L.Sub(world.Epoch), L2.Sub(world.Epoch), n, I, wantL.Sub(world.Epoch), now.Sub(world.Epoch)))
		}
	case chargeable == 0:
		if !(L2.Equal(wantL) || L2.Equal(now)) || L2.After(now) {
			out = append(out, fail("clock", "wrong-advance-nothing-chargeable", "clock %s -> %s, expected %s or block time", L, L2, wantL))
		}
	default:
		// chargeable assets exist but only dust: the implementation keeps the clock (root of the known retroactivity finding)
		if L2.After(now) {
			out = append(out, fail("clock", "past-block-time", "clock %s is past the block time %s", L2, now))
		}
	}
	return out
}

func c09Cfg(rateA, rateB string, interval time.Duration, warm bool) world.Config {
	cfg := world.DefaultConfig()
	cfg.TakeInterval = interval
	cfg.Assets = []world.AssetCfg{
		{Denom: "aaa", Weight: "1", Min: "0", Max: "5", TakeRate: rateA},
		{Denom: "bbb", Weight: "1", Min: "0", Max: "5", TakeRate: rateB},
	}
	if warm {
		cfg.Assets = append(cfg.Assets, world.AssetCfg{Denom: "ccc", Weight: "1", Min: "0", Max: "5", TakeRate: "0.5", StartOffset: 5 * U})
		cfg.DelFunds["ccc"] = "1000000000000"
	}
	return cfg
}

func init() {
	register(&Property{
		ID:    "C09",
		Title: "Take rate: exact compounding, exact transfer, bounded clock, never retroactive",
		Scenarios: func(tier string) []*engine.Scenario {
			mk := func(name string, cfg world.Config, amts []string, denoms []string, budgets []int, depth int, gov bool) *engine.Scenario {
				ops := func(n *engine.Node) []world.Op {
					var ops []world.Op
					s := n.Snap()
					for _, den := range denoms {
						for i, a := range amts {
							ops = append(ops, world.Op{K: world.KDelegate, D: i % 2, V: i % 2, Denom: den, Amt: a, Class: ClsUser})
						}
						for _, p := range s.Pos {
							if p.Denom == den && p.D >= 0 {
								ops = append(ops, world.Op{K: world.KUndelegateAll, D: p.D, V: p.V, Denom: den, Class: ClsUser})
								ops = append(ops, world.Op{K: world.KUndelegate, D: p.D, V: p.V, Denom: den, Amt: "1", Class: ClsUser})
							}
						}
					}
					for _, dt := range tierPick(tier, dts(1, 2, 3, 7), dts(1, 2, 3, 7, 300)) {
						ops = append(ops, world.Op{K: world.KBlock, Dt: int64(dt), Class: ClsBlock})
					}
					if gov {
						// the other asset's rate goes from 0 to positive (and back) while the first one is being charged: the
						// take-rate clock is one module-wide value
						if b, ok := s.Assets["bbb"]; ok && len(denoms) > 1 {
							for _, r := range []string{"0", "0.5"} {
								ops = append(ops, world.Op{K: world.KGovUpdate, Denom: "bbb", Class: ClsGov, Args: map[string]string{
									"w": b.RewardWeight.String(), "min": b.RewardWeightRange.Min.String(), "max": b.RewardWeightRange.Max.String(), "take": r, "rate": "1", "interval": "0"}})
							}
						}
						a := s.Assets["aaa"]
						for _, r := range []string{"0", "0.5"} {
							ops = append(ops, world.Op{K: world.KGovUpdate, Denom: "aaa", Class: ClsGov, Args: map[string]string{
								"w": a.RewardWeight.String(), "min": a.RewardWeightRange.Min.String(), "max": a.RewardWeightRange.Max.String(), "take": r, "rate": "1", "interval": "0"}})
						}
						other := 1 * U
						if s.Params.TakeRateClaimInterval == 1*U {
							other = 2 * U
						}
						ops = append(ops, world.Op{K: world.KGovParams, Class: ClsGov, Args: map[string]string{"interval": fmt.Sprint(int64(other))}})
						ops = append(ops, world.Op{K: world.KGovParams, Class: ClsGov, Args: map[string]string{"last": "past"}})
						if len(denoms) > 1 {
							// a 100% slash of the only validator holding an asset leaves it without shares but not without stake: it
							// is still charged
							ops = append(ops, world.Op{K: world.KSlash, V: 0, F: "1", Class: ClsSlash})
						}
					}
					return ops
				}
				return &engine.Scenario{
					Property: "C09", Name: name, Cfg: cfg, Stores: world.ModuleStores,
					Seeds: [][]world.Op{nil}, ClassNames: classNames, Budgets: budgets, MaxDepth: depth,
					NewRef: func(w *world.World, root *engine.Node) engine.Ref { return &takeRef{lastDeposit: map[string]int64{}} },
					Ops:    ops, Step: c09Step,
					// (with interval = 1u every crossing on the 1u lattice spans >= 2 intervals, so single_interval is not required)
					Required: []string{"endblock.sub_interval", "endblock.multi_interval", "asset.charged"},
				}
			}
			// weight schedule configured but the weight pinned by its range (min == max): the scheduled change and the take-rate
			// deduction fire in the same EndBlocker and must not disturb each other
			pinned := c09Cfg("0.3", "0", 2*U, false)
			pinned.Assets[0].Min, pinned.Assets[0].Max = "1", "1"
			pinned.Assets[0].ChangeRate, pinned.Assets[0].ChangeInterval = "0.5", 2*U
			// governance in the middle of a history with two staked assets (one taxed, one at rate 0)
			govSc := func(budgets []int, depth int) *engine.Scenario {
				sc := mk("c09-governance", c09Cfg("0.3", "0", 2*U, false), []string{"3"}, []string{"aaa", "bbb"}, budgets, depth, true)
				sc.Seeds = [][]world.Op{{opDel(0, 0, "aaa", "1000"), opDel(1, 1, "bbb", "1000"), opBlock(1)}}
				sc.SeedStep = true
				sc.Required = []string{"endblock.sub_interval", "endblock.multi_interval", "asset.charged", "gov.rate_raised_from_zero_on_staked_asset"}
				return sc
			}
			small := []string{"1", "2", "3", "10", "1000"}
			bigA := []string{"1000000", "1000000000000000000000000", "3"}
			if tier == "thorough" {
				return []*engine.Scenario{
					govSc([]int{2, 1, 0, 5, 2}, 8),
					mk("c09-r0.3-I2u", c09Cfg("0.3", "0", 2*U, false), small, []string{"aaa", "bbb"}, []int{3, 0, 0, 5, 1}, 8, true),
					mk("c09-r0.5-r0.999999-I1u", c09Cfg("0.5", "0.999999", 1*U, false), []string{"1", "3", "1000"}, []string{"aaa", "bbb"}, []int{3, 0, 0, 5, 0}, 8, false),
					mk("c09-r1e-6-warmup-I2u", c09Cfg("0.000001", "0", 2*U, true), []string{"3", "1000000"}, []string{"aaa", "ccc"}, []int{3, 0, 0, 5, 0}, 8, false),
					mk("c09-magnitude", c09Cfg("0.3", "0.5", 2*U, false), bigA, []string{"aaa", "bbb"}, []int{3, 0, 0, 4, 0}, 7, false),
					mk("c09-pinned-weight-schedule", pinned, []string{"3", "1000"}, []string{"aaa"}, []int{2, 0, 0, 4, 0}, 6, false),
				}
			}
			return []*engine.Scenario{
				govSc([]int{1, 1, 0, 3, 2}, 5),
				mk("c09-r0.3-I2u", c09Cfg("0.3", "0", 2*U, false), []string{"1", "3", "1000"}, []string{"aaa"}, []int{3, 0, 0, 4, 1}, 6, true),
				mk("c09-r0.5-r0.999999-I1u", c09Cfg("0.5", "0.999999", 1*U, false), []string{"2", "1000"}, []string{"aaa", "bbb"}, []int{3, 0, 0, 4, 0}, 6, false),
				mk("c09-r1e-6-warmup-I2u", c09Cfg("0.000001", "0", 2*U, true), []string{"3", "1000000"}, []string{"aaa", "ccc"}, []int{3, 0, 0, 4, 0}, 6, false),
				mk("c09-magnitude", c09Cfg("0.3", "0.5", 2*U, false), bigA, []string{"aaa"}, []int{3, 0, 0, 4, 0}, 6, false),
				mk("c09-pinned-weight-schedule", pinned, []string{"3", "1000"}, []string{"aaa"}, []int{2, 0, 0, 3, 0}, 5, false),
			}
		},
		Assumptions: []string{
			"rates {0, 1e-6, 0.3, 0.5, 0.999999}, claim interval 1u/2u (changed by governance mid-history), block steps 1u/2u/3u/7u (300u in thorough), totals from 1 base unit to 1e24, one warm-up asset",
			"amount oracle: floor(T*(1-r)^n) recomputed with exact rationals, admitting a difference only where the exact product lies within (n+2)*1e-18*T of an integer; a total whose product is <= 1 may be left untouched (the code's stop rule, required by 'never drives a total to zero')",
		},
	})
}
