package props

import (
	"fmt"
	"math/big"
	"strings"

	sdk "github.com/cosmos/cosmos-sdk/types"

	"github.com/terra-money/alliance/x/alliance/types"

	"verifmc/engine"
	"verifmc/world"
)

// solvencyCheck: settle every validator on a discarded branch, then the sum of what all delegations can claim must be
// covered by the rewards pool, and claiming in two opposite orders must succeed for everyone.
func solvencyCheck(x *engine.Exec, ref *rewRef) []engine.Failure {
	w := x.W
	k := w.App.AllianceKeeper
	s := x.Next.Snap()
	var out []engine.Failure
	classify := func() string {
		if ref.Tainted {
			return "payout-uses-current-token-value"
		}
		if anyRoundedUp(s) {
			return "payout-on-rounded-up-token-amount"
		}
		if ref.BigStake {
			return "index-resolution-at-1e18-tokens-or-more"
		}
		for _, vs := range s.Vals {
			for _, t := range vs.Tokens {
				// the per-token index has 18 decimals and is rounded half-up: with >= 1e18 tokens on a validator one index update
				// can over-credit by half a base unit or more
				if t.Cmp(new(big.Rat).SetInt(new(big.Int).Exp(big.NewInt(10), big.NewInt(18), nil))) >= 0 {
					return "index-resolution-at-1e18-tokens-or-more"
				}
			}
		}
		return ""
	}
	c, _ := x.Next.Ctx.CacheContext()
	for v := range w.Vals {
		val, err := k.GetAllianceValidator(c, w.Vals[v])
		if err != nil {
			continue
		}
		if _, err := k.ClaimValidatorRewards(c, val); err != nil {
			out = append(out, fail("settle", "", "settling v%d failed: %v", v, err))
		}
	}
	sum := sdk.NewCoins()
	n := 0
	_ = k.IterateDelegations(c, func(d types.Delegation) bool {
		va, _ := sdk.ValAddressFromBech32(d.ValidatorAddress)
		val, err := k.GetAllianceValidator(c, va)
		if err != nil {
			return false
		}
		asset, ok := k.GetAssetByDenom(c, d.Denom)
		if !ok || !asset.RewardsStarted(c.BlockTime()) {
			return false
		}
		coins, _, err := k.CalculateDelegationRewards(c, d, val, asset)
		if err == nil {
			sum = sum.Add(coins...)
			n++
		}
		return false
	})
	pool := w.App.BankKeeper.GetAllBalances(c, w.PoolAddr)
	x.Cnt.Inc("solvency.states_checked")
	if !sum.IsZero() {
		x.Cnt.Inc("solvency.states_with_claimable_rewards")
	}
	for _, coin := range sum {
		if coin.Amount.GT(pool.AmountOf(coin.Denom)) {
			out = append(out, fail("solvency", classify(), "after %s: %d delegations can claim %s in total but the rewards pool holds %s", x.Op.String(), n, coin, pool.AmountOf(coin.Denom)))
		}
	}
	// claim in two opposite orders
	for _, rev := range []bool{false, true} {
		ctx := x.Next.Ctx
		pos := s.Pos
		for i := range pos {
			p := pos[i]
			if rev {
				p = pos[len(pos)-1-i]
			}
			if p.D < 0 || p.D >= len(w.Dels) {
				continue
			}
			r := w.Exec(ctx, world.Op{K: world.KClaim, D: p.D, V: p.V, Denom: p.Denom})
			if r.Err != nil {
				if _, verr := w.App.StakingKeeper.GetValidator(ctx, w.Vals[p.V]); verr != nil && strings.Contains(r.Err.Error(), "does not exist") {
					// K-C10-validator-removed: the position sits on a validator x/staking has removed; nothing can be claimed for
					// it any more. The other positions are still claimed in this order.
					out = append(out, fail("claim-any-order", "validator-removed-while-alliance-stake-on-it", "after %s: claim of %s fails: %v", x.Op.String(), p.Key(), r.Err))
					continue
				}
				cause := classify()
				if !strings.Contains(r.Err.Error(), "insufficient funds") {
					cause = ""
				}
				out = append(out, fail("claim-any-order", cause, "after %s: claim of %s (order reversed=%v) fails: %v", x.Op.String(), p.Key(), rev, r.Err))
				break
			}
			ctx = r.Ctx
		}
	}
	// cumulative payouts never exceed cumulative deposits
	for d, o := range ref.PoolOut {
		if o.Cmp(ref.PoolIn[d]) > 0 {
			out = append(out, fail("cumulative", classify(), "rewards pool paid out %s %s in total but received %s", o, d, ref.PoolIn[d]))
		}
	}
	return out
}

func c12Step(x *engine.Exec) []engine.Failure {
	if x.Res.Rejected {
		return nil
	}
	ref := x.Next.Ref.(*rewRef)
	prev, next := x.Prev.Snap(), x.Next.Snap()
	outstanding := len(ref.E) > 0
	for _, m := range ref.Pending {
		for _, a := range m {
			if a.Sign() > 0 {
				outstanding = true
			}
		}
	}
	// value-changing events while rewards are outstanding are what C12 is about
	valueChange := x.Op.K == world.KSlash
	if x.Op.K == world.KBlock {
		for _, den := range prev.Denoms {
			if !prev.Assets[den].TotalTokens.Equal(next.Assets[den].TotalTokens) {
				valueChange = true
			}
		}
	}
	if valueChange {
		x.Cnt.Inc("event.value_change")
		if outstanding || !next.Pool.IsZero() {
			ref.Tainted = true
			x.Cnt.Inc("event.value_change_with_rewards_outstanding")
		}
	}
	e18big := new(big.Rat).SetInt(new(big.Int).Exp(big.NewInt(10), big.NewInt(18), nil))
	for _, sn := range []*world.Snap{prev, next} {
		for _, vs := range sn.Vals {
			for _, t := range vs.Tokens {
				if t.Cmp(e18big) >= 0 {
					ref.BigStake = true // index updates made while such stakes exist keep their rounding error for good
				}
			}
		}
	}
	// every payment must be backed by an advanced reward history and bounded by index x tokens
	pay := paymentOracle(x, ref)
	// the entitlement oracle is C13's: here the reward reference is only kept up to date
	rewardStepDenoms(x, ref)
	if len(ref.E) == 0 && next.Pool.IsZero() {
		ref.Tainted = false
	}
	return append(pay, solvencyCheck(x, ref)...)
}

// paymentOracle: whatever a transition pays a delegator in the bond denom must come with an advanced reward history of
// one of his positions (or the position's removal). A payment that leaves every history where it was can be collected
// again; this check is independent of the known design-level inflation of amounts (payout on CURRENT tokens, rounded
// up), which otherwise hides a double payment after a slash.
func paymentOracle(x *engine.Exec, ref *rewRef) []engine.Failure {
	prev, next := x.Prev.Snap(), x.Next.Snap()
	var out []engine.Failure
	if x.Op.K == world.KReward {
		return nil
	}
	// largest factor by which this transition can have raised a position's token value before paying it
	G := ratI(1)
	if x.Op.K == world.KSlash {
		for _, g := range slashFactors(prev, x.Op.V, world.Rat(x.Res.EffFrac)) {
			if g != nil && g.Cmp(G) > 0 {
				G = g
			}
		}
	}
	nm := next.PosMap()
	for d := range next.DelBal {
		paid := new(big.Int).Sub(next.DelBal[d].AmountOf(rewardDenom).BigInt(), prev.DelBal[d].AmountOf(rewardDenom).BigInt())
		if paid.Sign() <= 0 {
			continue
		}
		bound := new(big.Rat)
		advanced := 0
		for _, p := range prev.Pos {
			if p.D != d {
				continue
			}
			np, ok := nm[p.Key()]
			adv := !ok || fmt.Sprint(np.Raw.RewardHistory) != fmt.Sprint(p.Raw.RewardHistory)
			if !adv {
				continue
			}
			advanced++
			if ix := ref.Idx[p.Key()]; ix != nil && ix[rewardDenom] != nil {
				tokens := ratAdd(world.RatInt(p.Reported), ratI(1))
				if ok && world.RatInt(np.Reported).Cmp(tokens) > 0 {
					tokens = ratAdd(world.RatInt(np.Reported), ratI(1))
				}
				bound.Add(bound, ratMul(ratMul(ix[rewardDenom], tokens), G))
			}
			bound.Add(bound, ratI(int64(1+ref.NAlloc[p.Key()])))
		}
		x.Cnt.Inc("payment.checked")
		if advanced == 0 {
			out = append(out, fail("payment", "paid-without-advancing-any-reward-history", "%s paid d%d %s %s but none of his positions advanced its reward history", x.Op.String(), d, paid, rewardDenom))
			continue
		}
		_ = bound // (a quantitative bound per payment would need the settlement-time index; the pool-level oracles cover amounts)
	}
	// positions whose history advanced (whoever triggered it) start a new accrual period
	for _, p := range prev.Pos {
		np, ok := nm[p.Key()]
		if !ok || fmt.Sprint(np.Raw.RewardHistory) != fmt.Sprint(p.Raw.RewardHistory) {
			delete(ref.Idx, p.Key())
		}
	}
	return out
}

// rewardStepDenoms keeps the reference current without judging claims (several reward denoms possible here).
func rewardStepDenoms(x *engine.Exec, ref *rewRef) {
	prev, next := x.Prev.Snap(), x.Next.Snap()
	switch x.Op.K {
	case world.KReward:
		ref.onAllocation(x.W, x)
		x.Cnt.Inc("reward.allocations")
		ref.poolFlow(prev, next, nil)
		return
	case world.KDelegate, world.KUndelegate, world.KUndelegateAll, world.KRedelegate, world.KRedelegateAll, world.KClaim:
		paid := map[string]*big.Int{}
		if x.Op.D >= 0 && x.Op.D < len(next.DelBal) {
			for _, den := range []string{"stake", "aaa", "bbb"} {
				got := new(big.Int).Sub(next.DelBal[x.Op.D].AmountOf(den).BigInt(), prev.DelBal[x.Op.D].AmountOf(den).BigInt())
				if den == x.Op.Denom && x.Op.K == world.KDelegate {
					got.Add(got, x.Res.Amount.BigInt())
				}
				if got.Sign() > 0 {
					paid[den] = got
				}
			}
		}
		for _, k := range claimedPositions(x) {
			delete(ref.E, k)
			delete(ref.NAlloc, k)
		}
		ref.poolFlow(prev, next, paid)
	default:
		ref.poolFlow(prev, next, nil)
	}
	ref.observePending(x.W, x.Next.Ctx)
}

func init() {
	register(&Property{
		ID:    "C12",
		Title: "Reward pool solvency",
		Scenarios: func(tier string) []*engine.Scenario {
			mkOps := func(rewards []world.Op, amts []string) func(n *engine.Node) []world.Op {
				al := Alpha{
					Dels: []int{0, 1}, Vals: []int{0, 1}, Denoms: []string{"aaa"},
					DelAmts: amts[:1], UndAmts: []string{amts[0]}, UndAll: true, RedAmts: []string{amts[0]}, Claim: true,
					SlashVals: []int{0, 1}, SlashF: []string{"0.5"},
					BlockDts: dts(1, 3), Rewards: rewards,
				}
				return al.Ops
			}
			mk := func(name string, seed []world.Op, rewards []world.Op, amts []string, budgets []int, depth int) *engine.Scenario {
				return &engine.Scenario{
					Property: "C12", Name: name, Cfg: world.DefaultConfig(), Stores: world.ModuleStores,
					Seeds: [][]world.Op{seed}, ClassNames: classNames, Budgets: budgets, MaxDepth: depth,
					NewRef: func(w *world.World, root *engine.Node) engine.Ref { return newRewRef() },
					Ops:    mkOps(rewards, amts), Step: c12Step, SeedStep: true,
					Required: []string{"solvency.states_with_claimable_rewards", "reward.allocations", "event.value_change_with_rewards_outstanding"},
				}
			}
			rw := func(amts ...string) []world.Op {
				var out []world.Op
				for _, a := range amts {
					out = append(out, world.Op{K: world.KReward, Denom: "stake", Amt: a})
				}
				out = append(out, world.Op{K: world.KReward, Denom: "aaa", Amt: amts[len(amts)-1]})
				return out
			}
			small := []world.Op{opDel(0, 0, "aaa", "10"), opDel(1, 1, "aaa", "3"), opDel(1, 0, "aaa", "1"), opBlock(1)}
			mid := []world.Op{opDel(0, 0, "aaa", "1000000"), opDel(1, 1, "aaa", "1000000"), opBlock(1)}
			huge := []world.Op{opDel(0, 0, "aaa", "1000000000000000000000000"), opDel(1, 1, "aaa", "1000000000000000000"), opBlock(1)}
			// full pipeline: x/staking removes a validator that carries alliance stake but no module stake (the stake arrived
			// after it left the active set) while rewards are outstanding on another validator; no value-changing event occurs,
			// so whatever can be claimed afterwards must still be covered by the pool
			rcfg := world.DefaultConfig()
			rcfg.FullPipeline = true
			rcfg.Assets = []world.AssetCfg{{Denom: "aaa", Weight: "1", Min: "0", Max: "5", TakeRate: "0"}}
			removed := &engine.Scenario{
				Property: "C12", Name: "c12-validator-removed", Cfg: rcfg, Stores: world.AllStores,
				Seeds:      [][]world.Op{{opDel(0, 0, "aaa", "1000000"), opBlock(1)}},
				ClassNames: classNames, Budgets: tierPick(tier, []int{1, 0, 2, 5, 0}, []int{2, 0, 3, 6, 0}), MaxDepth: tierPick(tier, 8, 11),
				NewRef: func(w *world.World, root *engine.Node) engine.Ref { return newRewRef() },
				Ops: func(n *engine.Node) []world.Op {
					ops := []world.Op{
						{K: world.KNUndelegateAll, D: 99, V: 2, Class: ClsEnv},
						{K: world.KDelegate, D: 1, V: 2, Denom: "aaa", Amt: "1000000", Class: ClsUser},
						{K: world.KDelegate, D: 1, V: 0, Denom: "aaa", Amt: "500000", Class: ClsUser},
						{K: world.KBlock, Dt: int64(U), Class: ClsBlock},
						{K: world.KBlock, Dt: int64(2 * U), Class: ClsBlock},
					}
					if atBlockStart(n) {
						ops = append(ops, world.Op{K: world.KReward, Denom: "stake", Amt: "1000003", Class: ClsEnv})
					}
					return ops
				},
				Step: func(x *engine.Exec) []engine.Failure {
					if x.Res.Rejected {
						return nil
					}
					if x.Op.K == world.KBlock && x.Res.Err != nil {
						return []engine.Failure{fail("endblock", "error", "block failed: %v", x.Res.Err)}
					}
					s := x.Next.Snap()
					for _, p := range s.Pos {
						if _, err := x.W.App.StakingKeeper.GetValidator(x.Next.Ctx, x.W.Vals[p.V]); err != nil {
							x.Cnt.Inc("state.alliance_stake_on_removed_validator")
							if !s.Pool.IsZero() {
								x.Cnt.Inc("state.alliance_stake_on_removed_validator_with_rewards_in_pool")
							}
							break
						}
					}
					return solvencyCheck(x, x.Next.Ref.(*rewRef))
				},
				SeedStep: true,
				Required: []string{"solvency.states_with_claimable_rewards", "state.alliance_stake_on_removed_validator"},
			}
			// the solvency probe over the full-pipeline union world (several assets, warm-up, weight schedule, governance, jailing);
			// value-changing events (slashes, take-rate blocks) taint the history as in c12Step
			unionFull := unionFullScenario("C12", "c12-union-full-pipeline", tier, func(x *engine.Exec) []engine.Failure {
				if x.Res.Rejected {
					return nil
				}
				if x.Op.K == world.KBlock && x.Res.Err != nil {
					return []engine.Failure{fail("endblock", "error", "block failed: %v", x.Res.Err)}
				}
				ref := x.Next.Ref.(*rewRef)
				prev, next := x.Prev.Snap(), x.Next.Snap()
				if x.Op.K == world.KSlash {
					ref.Tainted = true
				}
				for _, den := range prev.Denoms {
					if a, ok := next.Assets[den]; ok && !prev.Assets[den].TotalTokens.Equal(a.TotalTokens) && x.Op.K == world.KBlock {
						ref.Tainted = true
					}
				}
				return solvencyCheck(x, ref)
			}, func(w *world.World, root *engine.Node) engine.Ref { return newRewRef() }, tierPick(tier, 3, 6))
			unionFull.Required = []string{"solvency.states_with_claimable_rewards"}
			// an asset that earned rewards is emptied, deleted by governance and whitelisted again with a warm-up period; the
			// validators keep their reward indices of the old incarnation. Stake arriving during the new warm-up must not be
			// able to claim what the old incarnation's delegators were already paid
			ccfg := world.DefaultConfig()
			ccfg.RewardDelay = 2 * U
			ccfg.Assets = []world.AssetCfg{{Denom: "aaa", Weight: "1", Min: "0", Max: "5", TakeRate: "0"}, {Denom: "bbb", Weight: "1", Min: "0", Max: "5", TakeRate: "0"}}
			recreated := &engine.Scenario{
				Property: "C12", Name: "c12-recreated-asset", Cfg: ccfg, Stores: world.ModuleStores,
				Seeds: [][]world.Op{{opDel(0, 0, "aaa", "1000000"), opDel(1, 0, "bbb", "1000000"), opBlock(1), opReward("stake", "6000000"),
					{K: world.KClaim, D: 0, V: 0, Denom: "aaa"}, {K: world.KUndelegateAll, D: 0, V: 0, Denom: "aaa"},
					{K: world.KGovDelete, Denom: "aaa", Args: map[string]string{"signer": "authority"}},
					{K: world.KGovCreate, Denom: "aaa", Args: govArgs("authority", "1", "0,5", "0", "1", 0, false)}}},
				ClassNames: classNames, Budgets: tierPick(tier, []int{2, 0, 2, 3, 0}, []int{3, 0, 3, 4, 0}), MaxDepth: tierPick(tier, 6, 8),
				NewRef: func(w *world.World, root *engine.Node) engine.Ref { return newRewRef() },
				Ops: func(n *engine.Node) []world.Op {
					ops := []world.Op{
						{K: world.KDelegate, D: 0, V: 0, Denom: "aaa", Amt: "1000000", Class: ClsUser},
						{K: world.KDelegate, D: 2, V: 0, Denom: "aaa", Amt: "500000", Class: ClsUser},
						{K: world.KClaim, D: 1, V: 0, Denom: "bbb", Class: ClsUser},
						{K: world.KBlock, Dt: int64(U), Class: ClsBlock}, {K: world.KBlock, Dt: int64(3 * U), Class: ClsBlock},
					}
					if atBlockStart(n) {
						ops = append(ops, world.Op{K: world.KReward, Denom: "stake", Amt: "6000000", Class: ClsEnv})
					}
					return ops
				},
				Step: func(x *engine.Exec) []engine.Failure {
					if x.Res.Rejected {
						return nil
					}
					if x.Op.K == world.KBlock && x.Res.Err != nil {
						return []engine.Failure{fail("endblock", "error", "block failed: %v", x.Res.Err)}
					}
					if x.Op.K == world.KDelegate && x.Op.Denom == "aaa" {
						if a, ok := x.Prev.Snap().Assets["aaa"]; ok && x.Prev.Snap().Time.Before(a.RewardStartTime) {
							x.Cnt.Inc("stake.arrived_during_warmup_of_recreated_asset")
						}
					}
					return solvencyCheck(x, x.Next.Ref.(*rewRef))
				},
				Required: []string{"solvency.states_with_claimable_rewards", "stake.arrived_during_warmup_of_recreated_asset"},
			}
			// a governance weight change between allocations and claims (weight-change snapshots are replayed by every later
			// claim of a position that has a reward history already)
			wc := mk("c12-weight-change", mid, rw("1000000"), []string{"500000"}, tierPick(tier, []int{2, 0, 2, 2, 1}, []int{3, 1, 3, 3, 2}), tierPick(tier, 6, 8))
			wc.Seeds = [][]world.Op{append(append([]world.Op{}, mid...), opReward("stake", "1000000"), world.Op{K: world.KClaim, D: 0, V: 0, Denom: "aaa"}, opBlock(1))}
			wcBase := wc.Ops
			wc.Ops = func(n *engine.Node) []world.Op {
				var out []world.Op
				for _, o := range wcBase(n) {
					if o.K == world.KClaim || o.K == world.KBlock || (o.K == world.KReward && o.Denom == "stake") {
						out = append(out, o)
					}
				}
				if a, ok := n.Snap().Assets["aaa"]; ok {
					out = append(out, world.Op{K: world.KGovUpdate, Denom: "aaa", Class: ClsGov, Args: govArgs("authority", "2", "0,5", a.TakeRate.String(), "1", 0, false)})
				}
				return out
			}
			wc.Required = []string{"solvency.states_with_claimable_rewards", "reward.allocations"}
			if tier == "thorough" {
				return []*engine.Scenario{
					wc,
					recreated,
					unionFull,
					removed,
					mk("c12-small", small, rw("1", "7", "1000"), []string{"3"}, []int{3, 1, 2, 2, 0}, 7),
					mk("c12-mid", mid, rw("7", "1000000"), []string{"500000"}, []int{3, 1, 2, 2, 0}, 7),
					mk("c12-huge", huge, rw("1", "1000000"), []string{"1000000000000000000"}, []int{2, 1, 2, 2, 0}, 6),
				}
			}
			return []*engine.Scenario{
				wc,
				recreated,
				unionFull,
				removed,
				mk("c12-small", small, rw("7", "1000"), []string{"3"}, []int{2, 1, 1, 2, 0}, 4),
				mk("c12-mid", mid, rw("1000000"), []string{"500000"}, []int{2, 1, 2, 2, 0}, 5),
				mk("c12-huge", huge, rw("1", "1000000"), []string{"1000000000000000000"}, []int{1, 1, 2, 1, 0}, 4),
			}
		},
		Assumptions: []string{
			"stakes {1,3,10}, 1e6 and 1e18/1e24 base units per validator; reward inflow {1,7,1000,1e6} in the bond denom and in the alliance denom aaa (recycled through the fee collector); take rate 0.3 on aaa; slash 50%",
			"oracle runs on discarded branches of every reached state: settle all validators, compare the sum of CalculateDelegationRewards with the pool balance, then claim for every position in store order and in reverse order",
		},
	})
	_ = fmt.Sprint
}
