package props

import (
	"fmt"
	"math/big"
	"os"
	"sort"
	"strings"

	sdk "github.com/cosmos/cosmos-sdk/types"

	"verifmc/engine"
	"verifmc/world"
)

// rewRef is the reward reference model: exact-rational entitlements per position and reward denom, attributed at the
// moment x/distribution allocates a reward to a validator (not when the module withdraws it).
type rewRef struct {
	E        map[string]map[string]*big.Rat // position key -> reward denom -> accrued, unclaimed entitlement
	NAlloc   map[string]int                 // position key -> allocations since its last claim (rounding slack)
	Pending  map[int]map[string]*big.Rat    // validator -> denom -> module rewards pending in x/distribution at last observation
	BigStake bool                           // some validator held >= 1e18 base units of an asset at some point of this history
	Tainted  bool                           // a value-changing event happened while entitlements were outstanding (C12's domain)
	PoolIn   map[string]*big.Int            // cumulative coins received by the rewards pool
	PoolOut  map[string]*big.Int            // cumulative coins paid out of the rewards pool
	Unowned  map[string]*big.Rat            // rewards allocated to validators on which no started asset had stake (nobody is entitled)
	Idx      map[string]map[string]*big.Rat // position key -> reward denom -> per-token index increments since its last claim
	Skew     map[string]string              // positions whose validator had unsettled rewards while an asset total changed elsewhere
}

func newRewRef() *rewRef {
	return &rewRef{E: map[string]map[string]*big.Rat{}, NAlloc: map[string]int{}, Pending: map[int]map[string]*big.Rat{}, PoolIn: map[string]*big.Int{}, PoolOut: map[string]*big.Int{}, Unowned: map[string]*big.Rat{}, Skew: map[string]string{}, Idx: map[string]map[string]*big.Rat{}}
}

func (r *rewRef) Clone() engine.Ref {
	n := newRewRef()
	for k, m := range r.E {
		n.E[k] = map[string]*big.Rat{}
		for d, v := range m {
			n.E[k][d] = new(big.Rat).Set(v)
		}
	}
	for k, v := range r.NAlloc {
		n.NAlloc[k] = v
	}
	for k, m := range r.Pending {
		n.Pending[k] = map[string]*big.Rat{}
		for d, v := range m {
			n.Pending[k][d] = new(big.Rat).Set(v)
		}
	}
	for k, v := range r.PoolIn {
		n.PoolIn[k] = new(big.Int).Set(v)
	}
	for k, v := range r.PoolOut {
		n.PoolOut[k] = new(big.Int).Set(v)
	}
	for k, v := range r.Unowned {
		n.Unowned[k] = new(big.Rat).Set(v)
	}
	for k, v := range r.Skew {
		n.Skew[k] = v
	}
	for k, m := range r.Idx {
		n.Idx[k] = map[string]*big.Rat{}
		for d, v := range m {
			n.Idx[k][d] = new(big.Rat).Set(v)
		}
	}
	n.Tainted = r.Tainted
	n.BigStake = r.BigStake
	return n
}

func (r *rewRef) Digest() []byte {
	var parts []string
	for k, m := range r.E {
		for d, v := range m {
			if v.Sign() != 0 {
				parts = append(parts, fmt.Sprintf("E%s/%s=%s", k, d, v.String()))
			}
		}
	}
	for k, v := range r.NAlloc {
		if v != 0 {
			parts = append(parts, fmt.Sprintf("N%s=%d", k, v))
		}
	}
	for k, v := range r.PoolIn {
		parts = append(parts, fmt.Sprintf("I%s=%s", k, v))
	}
	for k, v := range r.PoolOut {
		parts = append(parts, fmt.Sprintf("O%s=%s", k, v))
	}
	for k, v := range r.Skew {
		if v != "" {
			parts = append(parts, "S"+k+v)
		}
	}
	for k, m := range r.Idx {
		for d, v := range m {
			if v.Sign() != 0 {
				parts = append(parts, fmt.Sprintf("X%s/%s=%s", k, d, v.String()))
			}
		}
	}
	sort.Strings(parts)
	return []byte(fmt.Sprintf("%s|%v|%v", strings.Join(parts, ";"), r.Tainted, r.BigStake))
}

// modulePending reads, on a discarded branch, the rewards x/distribution currently owes the alliance module for validator v.
func modulePending(w *world.World, ctx sdk.Context, v int) map[string]*big.Rat {
	out := map[string]*big.Rat{}
	c, _ := ctx.CacheContext()
	val, err := w.App.StakingKeeper.Validator(c, w.Vals[v])
	if err != nil {
		return out
	}
	del, err := w.App.StakingKeeper.Delegation(c, w.ModAddr, w.Vals[v])
	if err != nil || del == nil {
		return out
	}
	end, err := w.App.DistrKeeper.IncrementValidatorPeriod(c, val)
	if err != nil {
		return out
	}
	rew, err := w.App.DistrKeeper.CalculateDelegationRewards(c, val, del, end)
	if err != nil {
		return out
	}
	for _, dc := range rew {
		out[dc.Denom] = world.Rat(dc.Amount)
	}
	return out
}

// observePending refreshes the pending-in-distribution view after a transition that may have settled validators.
func (r *rewRef) observePending(w *world.World, ctx sdk.Context) {
	for v := range w.Vals {
		r.Pending[v] = modulePending(w, ctx, v)
	}
}

// onAllocation attributes what x/distribution newly allocated to the module (pending after - pending before) to the
// positions staked at that moment: per validator split over started assets by rewardWeight x tokens_on_V / asset total,
// within an asset by token value.
func (r *rewRef) onAllocation(w *world.World, x *engine.Exec) {
	s := x.Next.Snap()
	for v := range w.Vals {
		after := modulePending(w, x.Next.Ctx, v)
		before := r.Pending[v]
		r.Pending[v] = after
		for den, amt := range after {
			inc := new(big.Rat).Set(amt)
			if before != nil && before[den] != nil {
				inc.Sub(inc, before[den])
			}
			if os.Getenv("VERIF_DEBUG") != "" {
				fmt.Printf("      alloc v%d %s before=%v after=%s inc=%s\n", v, den, before, world.RatF(amt), world.RatF(inc))
			}
			if inc.Sign() <= 0 {
				continue
			}
			// asset weights on v
			weights := map[string]*big.Rat{}
			total := new(big.Rat)
			for _, ad := range s.Denoms {
				a := s.Assets[ad]
				if s.Time.Before(a.RewardStartTime) || !a.TotalTokens.IsPositive() {
					continue
				}
				tv := s.Vals[v].Tokens[ad]
				if tv == nil || tv.Sign() == 0 {
					continue
				}
				wt := ratQuo(ratMul(world.Rat(a.RewardWeight), tv), world.RatInt(a.TotalTokens))
				weights[ad] = wt
				total.Add(total, wt)
			}
			if total.Sign() == 0 {
				if r.Unowned[den] == nil {
					r.Unowned[den] = new(big.Rat)
				}
				r.Unowned[den].Add(r.Unowned[den], inc)
				continue
			}
			for ad, wt := range weights {
				assetPart := ratMul(inc, ratQuo(wt, total))
				tv := s.Vals[v].Tokens[ad]
				for _, p := range s.Pos {
					if p.V != v || p.Denom != ad || p.Value.Sign() == 0 {
						continue
					}
					share := ratMul(assetPart, ratQuo(p.Value, tv))
					k := p.Key()
					if r.E[k] == nil {
						r.E[k] = map[string]*big.Rat{}
					}
					if r.E[k][den] == nil {
						r.E[k][den] = new(big.Rat)
					}
					r.E[k][den].Add(r.E[k][den], share)
					r.NAlloc[k]++
					// per-token index increment of this allocation for this asset on this validator
					if r.Idx[k] == nil {
						r.Idx[k] = map[string]*big.Rat{}
					}
					if r.Idx[k][den] == nil {
						r.Idx[k][den] = new(big.Rat)
					}
					r.Idx[k][den].Add(r.Idx[k][den], ratQuo(assetPart, tv))
				}
			}
		}
	}
}

// claimedPositions lists the positions whose rewards a successful user tx pays out (explicitly or implicitly).
func claimedPositions(x *engine.Exec) []string {
	prev := x.Prev.Snap()
	key := func(v int) string { return world.Pos{D: x.Op.D, V: v, Denom: x.Op.Denom}.Key() }
	has := func(v int) bool { _, ok := prev.FindPos(x.Op.D, v, x.Op.Denom); return ok }
	started := true
	if a, ok := prev.Assets[x.Op.Denom]; ok && prev.Time.Before(a.RewardStartTime) {
		started = false
	}
	if !started {
		return nil
	}
	switch x.Op.K {
	case world.KClaim, world.KUndelegate, world.KUndelegateAll:
		return []string{key(x.Op.V)}
	case world.KDelegate:
		if has(x.Op.V) {
			return []string{key(x.Op.V)}
		}
	case world.KRedelegate, world.KRedelegateAll:
		out := []string{key(x.Op.V)}
		if has(x.Op.V2) {
			out = append(out, key(x.Op.V2))
		}
		return out
	}
	return nil
}

// poolFlow updates cumulative pool in/out from the observed balance delta of the rewards pool and the payouts.
func (r *rewRef) poolFlow(prev, next *world.Snap, paid map[string]*big.Int) {
	denoms := map[string]bool{}
	for _, c := range prev.Pool {
		denoms[c.Denom] = true
	}
	for _, c := range next.Pool {
		denoms[c.Denom] = true
	}
	for d := range paid {
		denoms[d] = true
	}
	for d := range denoms {
		delta := new(big.Int).Sub(next.Pool.AmountOf(d).BigInt(), prev.Pool.AmountOf(d).BigInt())
		out := paid[d]
		if out == nil {
			out = new(big.Int)
		}
		in := new(big.Int).Add(delta, out)
		if r.PoolIn[d] == nil {
			r.PoolIn[d], r.PoolOut[d] = new(big.Int), new(big.Int)
		}
		r.PoolIn[d].Add(r.PoolIn[d], in)
		r.PoolOut[d].Add(r.PoolOut[d], out)
	}
}

// markSkew flags positions on validators that still have unsettled module rewards in x/distribution after a
// transaction changed an asset's staked total: the module splits a validator's rewards between assets with the asset
// totals at SETTLEMENT time, so such a change shifts already-accrued rewards between the assets on that validator.
func (r *rewRef) markSkew(prev, next *world.Snap) {
	changed := map[string]bool{}
	for _, d := range prev.Denoms {
		if !prev.Assets[d].TotalTokens.Equal(next.Assets[d].TotalTokens) {
			changed[d] = true
		}
	}
	if len(changed) == 0 {
		return
	}
	for v := range next.Vals {
		m := r.Pending[v]
		if m == nil {
			continue
		}
		pending := false
		for _, amt := range m {
			if amt.Sign() > 0 {
				pending = true
			}
		}
		if !pending {
			continue
		}
		dens := map[string]bool{}
		hit := false
		for _, p := range next.Pos {
			if p.V == v {
				dens[p.Denom] = true
				if changed[p.Denom] {
					hit = true
				}
			}
		}
		if len(dens) >= 2 && hit {
			for _, p := range next.Pos {
				if p.V == v {
					if r.Skew[p.Key()] == "" {
						r.Skew[p.Key()] = "asset-split-uses-totals-at-settlement"
					}
				}
			}
		}
	}
}
