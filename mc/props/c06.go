package props

import (
	"math/big"
	"strings"

	"verifmc/engine"
	"verifmc/world"
)

// C06: slashing bonded stake is proportional, targeted and value-conserving.
func c06Step(x *engine.Exec) []engine.Failure {
	ref := x.Next.Ref.(*pendRef)
	if x.Res.Rejected {
		return nil
	}
	prev := x.Prev.Snap()
	switch x.Op.K {
	case world.KUndelegate, world.KUndelegateAll:
		ref.onUndelegate(x)
		return nil
	case world.KRedelegate, world.KRedelegateAll:
		ref.onRedelegate(x)
		return nil
	case world.KBlock:
		ref.onEndBlock(prev.Time)
		return nil
	case world.KSlash:
	default:
		return nil
	}
	next := x.Next.Snap()
	var out []engine.Failure
	v := x.Op.V
	f := world.Rat(x.Res.EffFrac)
	aborted := x.Res.Err != nil || x.Res.HookErr != ""
	if aborted {
		x.Cnt.Inc("slash.callback_aborted")
	}
	// Only what the LATER stages of the callback do (the cut of pending unbondings forwarded out of custody) can be
	// explained by an abort: the bonded stake is slashed first, before any stage that can fail.
	cause := func(c string) string {
		if aborted {
			if strings.Contains(x.Res.HookErr, "insufficient funds") || (x.Res.Err != nil && strings.Contains(x.Res.Err.Error(), "insufficient funds")) {
				return "reward-pool-short"
			}
			return "callback-aborted"
		}
		return c
	}
	if x.Res.EffFrac.IsNil() || x.Res.EffFrac.IsZero() {
		return nil // x/staking computed a zero burn: the hook is not called
	}
	g := slashFactors(prev, v, f)
	// destinations of pending redelegations out of v are C07's business
	dest := map[string]bool{}
	for _, r := range ref.pendingRedsFrom(v, prev.Time) {
		dest[world.Pos{D: r.D, V: r.Dst, Denom: r.Denom}.Key()] = true
	}
	feeExp, _ := ref.onSlash(v, f, prev.Time)
	if aborted {
		// the reference assumed the full cut; what is really pending after the abort is re-read so that later transitions are
		// judged correctly (second thorough loop: a later slash was reported against the wrong reference - a model error)
		defer ref.resyncUnb(next)
	}
	x.Cnt.Inc("slash.checked")
	for den, sh := range prev.Vals[v].ValShares {
		if a, ok := prev.Assets[den]; ok && sh.Sign() > 0 && prev.Time.Before(a.RewardStartTime) {
			x.Cnt.Inc("slash.validator_with_warmup_asset_stake")
		}
	}
	if len(prev.Vals[v].ValShares) >= 2 {
		x.Cnt.Inc("slash.validator_with_several_assets")
	}
	if len(prev.Vals[v].ValShares) == 0 {
		x.Cnt.Inc("slash.validator_without_alliance_stake")
	}
	nm := next.PosMap()
	oneMinusF := ratSub(ratI(1), f)
	sumPrev := map[[2]any]*big.Rat{}
	sumNext := map[[2]any]*big.Rat{}
	for _, p := range prev.Pos {
		gd := g[p.Denom]
		np, ok := nm[p.Key()]
		nv := new(big.Rat)
		if ok {
			nv = np.Value
		}
		wk := [2]any{p.V, p.Denom}
		if sumPrev[wk] == nil {
			sumPrev[wk], sumNext[wk] = new(big.Rat), new(big.Rat)
		}
		sumPrev[wk].Add(sumPrev[wk], p.Value)
		sumNext[wk].Add(sumNext[wk], nv)
		if gd == nil || prev.Assets[p.Denom].TotalValidatorShares.IsZero() {
			// the slashed validator held every share and f=1 (now or earlier): g is undefined, values are not meaningful
			x.Cnt.Inc("slash.g_undefined_skipped")
			continue
		}
		if dest[p.Key()] {
			x.Cnt.Inc("position.is_redelegation_destination")
			continue
		}
		want := ratMul(gd, p.Value)
		kind := "other-validator"
		if p.V == v {
			want = ratMul(oneMinusF, want)
			kind = "slashed-validator"
		}
		T := world.RatInt(prev.Assets[p.Denom].TotalTokens)
		if absRat(ratSub(nv, want)).Cmp(tol(T)) > 0 {
			c := ""
			// bystander positions on a validator that is the destination of a slashed redelegation receive part of the
			// value burnt from the destination position (C07 known finding: the burn is shared within the validator)
			for k := range dest {
				var dp world.Pos
				for _, q := range prev.Pos {
					if q.Key() == k {
						dp = q
					}
				}
				if dp.V == p.V && dp.Denom == p.Denom {
					c = "shares-burn-of-redelegation-destination-on-same-validator"
				}
			}
			out = append(out, fail("proportional", c, "slash(v%d,%s): %s position %s worth %s -> %s, expected %s (g=%s)", v, x.Op.F, kind, p.Key(), world.RatF(p.Value), world.RatF(nv), world.RatF(want), world.RatF(gd)))
		}
		if ok && np.Shares.Cmp(p.Shares) != 0 {
			out = append(out, fail("targeted", "delegation-shares-changed", "slash(v%d,%s): delegation shares of %s changed", v, x.Op.F, p.Key()))
		}
	}
	// per validator W != v: the sum of position values scales by g (value removed under C07 stays on W)
	for wk, sp := range sumPrev {
		w, den := wk[0].(int), wk[1].(string)
		gd := g[den]
		if gd == nil || w == v || prev.Assets[den].TotalValidatorShares.IsZero() {
			continue
		}
		want := ratMul(gd, sp)
		T := world.RatInt(prev.Assets[den].TotalTokens)
		if absRat(ratSub(sumNext[wk], want)).Cmp(tol(T)) > 0 {
			c := "validator-sum"
			for k := range dest {
				for _, q := range prev.Pos {
					if q.Key() == k && q.V == w && q.Denom == den {
						// a destination of a slashed redelegation lives on this validator: when all its shares are burnt (capped
						// slash of a sole delegator) its value stays on the validator as shares without owner, not as positions
						c = "shares-burn-of-redelegation-destination-on-same-validator"
					}
				}
			}
			out = append(out, fail("conserving", c, "slash(v%d,%s): positions on v%d (%s) sum %s -> %s, expected g*sum = %s", v, x.Op.F, w, den, world.RatF(sp), world.RatF(sumNext[wk]), world.RatF(want)))
		}
	}
	// staked total untouched; custody drops only by what C07 forwards from pending unbondings
	for _, den := range prev.Denoms {
		if !prev.Assets[den].TotalTokens.Equal(next.Assets[den].TotalTokens) {
			out = append(out, fail("conserving", cause("total-tokens-changed"), "slash(v%d,%s): %s staked total %s -> %s", v, x.Op.F, den, prev.Assets[den].TotalTokens, next.Assets[den].TotalTokens))
		}
		drop := new(big.Int).Sub(prev.Custody.AmountOf(den).BigInt(), next.Custody.AmountOf(den).BigInt())
		want := feeExp[den]
		if want == nil {
			want = new(big.Int)
		}
		if drop.Cmp(want) != 0 {
			out = append(out, fail("conserving", cause("custody-changed"), "slash(v%d,%s): custody of %s dropped by %s, pending unbondings justify %s", v, x.Op.F, den, drop, want))
		}
	}
	return out
}

func init() {
	fr := []string{"0.0001", "0.01", "0.05", "0.333333333333333333", "0.5", "0.99", "1"}
	register(&Property{
		ID:    "C06",
		Title: "Slashing bonded stake is proportional, targeted and value-conserving",
		Scenarios: func(tier string) []*engine.Scenario {
			// uneven stake in two assets over three validators, one position created by redelegation that has matured,
			// one prior take-rate step (aaa at 0.3)
			s1 := []world.Op{
				opDel(0, 0, "aaa", "1000"), opDel(0, 1, "aaa", "300"), opDel(1, 0, "aaa", "70"), opDel(1, 1, "bbb", "500"), opDel(0, 0, "bbb", "41"),
				opRed(0, 0, 1, "aaa", "200"), opBlock(3), opBlock(3), opBlock(1),
			}
			s2 := []world.Op{
				opDel(0, 0, "aaa", "10"), opDel(1, 0, "aaa", "7"), opDel(1, 1, "aaa", "3"), opDel(2, 2, "aaa", "1"), opDel(2, 0, "bbb", "3"),
				opBlock(1),
			}
			s3 := []world.Op{opDel(0, 0, "aaa", big30), opDel(1, 1, "aaa", "7"), opDel(1, 0, "aaa", "1")}
			// an asset that is still warming up is slashed like any other (no block before the slash: no module stake yet either)
			s4 := []world.Op{opDel(0, 0, "ccc", "1000"), opDel(1, 1, "ccc", "300"), opDel(1, 0, "aaa", "70"), opDel(0, 1, "aaa", "500")}
			cfg := world.DefaultConfig()
			cfg.Assets = append(cfg.Assets, world.AssetCfg{Denom: "ccc", Weight: "1", Min: "0", Max: "5", TakeRate: "0", StartOffset: 1000 * U})
			cfg.DelFunds["ccc"] = "1000000000000"
			// a denom of another length: "aaaa" sorts BEFORE "bbb" as a string (the order of a validator's share list) and AFTER
			// it in the asset store, whose key is length-prefixed
			cfg.Assets = append(cfg.Assets, world.AssetCfg{Denom: "aaaa", Weight: "1", Min: "0", Max: "5", TakeRate: "0"})
			cfg.DelFunds["aaaa"] = "1000000000000"
			s5 := []world.Op{opDel(0, 0, "aaaa", "1000"), opDel(1, 0, "bbb", "500"), opDel(1, 1, "aaaa", "300"), opDel(0, 1, "bbb", "70"), opDel(2, 0, "aaa", "11")}
			user := func(n *engine.Node) []world.Op {
				var ops []world.Op
				ops = append(ops,
					world.Op{K: world.KDelegate, D: 1, V: 2, Denom: "aaa", Amt: "7", Class: ClsUser},
					world.Op{K: world.KDelegate, D: 2, V: 0, Denom: "bbb", Amt: "1000", Class: ClsUser},
				)
				if _, ok := n.Snap().FindPos(0, 0, "aaa"); ok {
					ops = append(ops, world.Op{K: world.KRedelegate, D: 0, V: 0, V2: 2, Denom: "aaa", Amt: "5", Class: ClsUser})
					ops = append(ops, world.Op{K: world.KUndelegate, D: 0, V: 0, Denom: "aaa", Amt: "5", Class: ClsUser})
				}
				if _, ok := n.Snap().FindPos(1, 0, "aaa"); ok {
					ops = append(ops, world.Op{K: world.KRedelegateAll, D: 1, V: 0, V2: 1, Denom: "aaa", Class: ClsUser})
				}
				return ops
			}
			al := Alpha{SlashVals: []int{0, 1, 2}, SlashF: fr, BlockDts: dts(3), Extra: user}
			mk := func(name string, seeds [][]world.Op, budgets []int, depth int) *engine.Scenario {
				return &engine.Scenario{
					Property: "C06", Name: name, Cfg: cfg, Stores: world.ModuleStores,
					Seeds: seeds, ClassNames: classNames, Budgets: budgets, MaxDepth: depth,
					NewRef: func(w *world.World, root *engine.Node) engine.Ref { return newPendRef() },
					Ops:    al.Ops, Step: c06Step, SeedStep: true,
					Required: []string{"slash.checked", "slash.validator_with_several_assets", "position.is_redelegation_destination", "slash.validator_with_warmup_asset_stake"},
				}
			}
			// the slash arrives through x/staking and a later stage of the callback fails (overdrawn rewards pool): the bonded
			// stake must have been slashed proportionally all the same
			full := c07Config()
			full.FullPipeline = true
			ab := &engine.Scenario{
				Property: "C06", Name: "c06-aborted-callback", Cfg: full, Stores: world.AllStores,
				Seeds: [][]world.Op{c08AbortSeed()}, ClassNames: classNames, Budgets: tierPick(tier, []int{2, 1, 0, 2, 0}, []int{2, 2, 0, 2, 0}), MaxDepth: tierPick(tier, 5, 6),
				NewRef: func(w *world.World, root *engine.Node) engine.Ref { return newPendRef() },
				Ops: Alpha{SlashVals: []int{0, 1}, SlashF: []string{"0.05", "0.5", "1"}, BlockDts: dts(1), Extra: func(n *engine.Node) []world.Op {
					return []world.Op{{K: world.KDelegate, D: 1, V: 0, Denom: "aaa", Amt: "7", Class: ClsUser}, {K: world.KUndelegate, D: 1, V: 0, Denom: "aaa", Amt: "5", Class: ClsUser}}
				}}.Ops,
				Step: c06Step, SeedStep: true,
				Required: []string{"slash.checked", "slash.callback_aborted"},
			}
			// an asset with a non-representable share price (5/6) is emptied and deleted by governance, then validators holding
			// the other asset are slashed: whatever the full exits left behind must not keep the bonded slash from being applied
			// (six seeds: every choice of the validator that never held the emptied asset, either exit order)
			dustCfg := c07Config()
			dust := &engine.Scenario{
				Property: "C06", Name: "c06-deleted-asset-dust", Cfg: dustCfg, Stores: world.ModuleStores,
				ClassNames: classNames, Budgets: tierPick(tier, []int{2, 1, 0, 0, 1}, []int{3, 2, 0, 1, 1}), MaxDepth: tierPick(tier, 4, 6),
				NewRef: func(w *world.World, root *engine.Node) engine.Ref { return newPendRef() },
				Ops: func(n *engine.Node) []world.Op {
					var ops []world.Op
					s := n.Snap()
					for _, p := range s.Pos {
						if p.Denom == "bbb" {
							ops = append(ops, world.Op{K: world.KUndelegateAll, D: p.D, V: p.V, Denom: "bbb", Class: ClsUser})
						}
					}
					if a, ok := s.Assets["bbb"]; ok && a.TotalTokens.IsZero() {
						ops = append(ops, world.Op{K: world.KGovDelete, Denom: "bbb", Class: ClsGov, Args: map[string]string{"signer": "authority"}})
					} else if !ok {
						for _, v := range []int{0, 1, 2} {
							ops = append(ops, world.Op{K: world.KSlash, V: v, F: "0.05", Class: ClsSlash}, world.Op{K: world.KSlash, V: v, F: "0.5", Class: ClsSlash})
						}
						ops = append(ops, world.Op{K: world.KBlock, Dt: int64(U), Class: ClsBlock})
					}
					return ops
				},
				Step: func(x *engine.Exec) []engine.Failure {
					if !x.Res.Rejected && x.Op.K == world.KSlash {
						if _, ok := x.Prev.Snap().Assets["bbb"]; !ok {
							x.Cnt.Inc("slash.after_emptied_asset_was_deleted")
						}
					}
					return c06Step(x)
				}, SeedStep: true,
				Required: []string{"slash.checked", "slash.after_emptied_asset_was_deleted"},
			}
			for _, h := range [][2]int{{0, 1}, {1, 2}, {0, 2}} {
				dust.Seeds = append(dust.Seeds, []world.Op{
					opDel(0, 0, "aaa", "1000"), opDel(0, 1, "aaa", "700"), opDel(1, 2, "aaa", "300"),
					opDel(0, h[0], "bbb", "4000000000"), opDel(1, h[1], "bbb", "2000000000"), opSlash(h[1], "0.5"),
				}, []world.Op{
					opDel(0, 0, "aaa", "1000"), opDel(0, 1, "aaa", "700"), opDel(1, 2, "aaa", "300"),
					opDel(0, h[1], "bbb", "4000000000"), opDel(1, h[0], "bbb", "2000000000"), opSlash(h[0], "0.5"),
				})
			}
			if tier == "thorough" {
				return []*engine.Scenario{mk("c06-slash", [][]world.Op{s1, s2, s3, s4, s5}, []int{3, 3, 0, 2, 0}, 7), ab, dust}
			}
			return []*engine.Scenario{ab, dust, mk("c06-slash", [][]world.Op{s1, s2, s3, s4, s5}, []int{2, 2, 0, 1, 0}, 5)}
		},
		Assumptions: []string{
			"fractions {0.01%, 1%, 5%, 1/3, 50%, 99%, 100%}; the case f=1 with the slashed validator holding every share of the asset (g undefined) is excluded from the proportionality check, staked total and custody are still checked",
			"destination positions of still-pending redelegations out of the slashed validator are excluded here and decided under C07",
		},
	})
}
