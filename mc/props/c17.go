package props

import (
	"fmt"
	"math/big"
	"strings"

	"cosmossdk.io/math"

	"verifmc/engine"
	"verifmc/world"
)

// C17: end-of-block processing never fails under any accepted parameter set.
func c17Step(x *engine.Exec) []engine.Failure {
	if x.Res.Rejected {
		return nil
	}
	if strings.HasPrefix(x.Op.K, "gov_") {
		x.Cnt.Inc("accepted." + x.Op.K)
	}
	if x.Op.K == world.KSlash {
		x.Cnt.Inc("slash")
	}
	if x.Op.K == world.KGovUpdate {
		// An update that switches a weight schedule on (the asset had none: rate 1 or interval 0) must restart the decay clock
		// at the block time. Otherwise the next end of block raises the new rate to the number of intervals that elapsed
		// BEFORE the schedule existed - the overflow of K-C17-decay-overflow reached with parameters and block steps that are
		// harmless on a restarted clock, which the classifier below could not tell apart from the known finding.
		if a, ok := x.Prev.Snap().Assets[x.Op.Denom]; ok {
			b := x.Next.Snap().Assets[x.Op.Denom]
			hadNone := a.RewardChangeInterval == 0 || a.RewardChangeRate.Equal(mathOne())
			hasNow := b.RewardChangeInterval > 0 && !b.RewardChangeRate.Equal(mathOne())
			if hadNone && hasNow {
				x.Cnt.Inc("gov.schedule_switched_on")
				if a.RewardChangeInterval > 0 {
					x.Cnt.Inc("gov.schedule_switched_on_for_rate_1_asset_with_interval")
				}
				if !b.LastRewardChangeTime.Equal(x.Prev.Snap().Time) {
					return []engine.Failure{fail("endblock-precondition", "decay-clock-not-restarted", "%s switched a weight schedule on but left the decay clock at %s (block time %s): the next end of block computes rate^n over intervals that elapsed before the schedule existed", x.Op.String(), b.LastRewardChangeTime, x.Prev.Snap().Time)}
				}
			}
		}
	}
	if x.Op.K != world.KBlock {
		return nil
	}
	prev := x.Prev.Snap()
	x.Cnt.Inc("endblock.runs")
	for _, den := range prev.Denoms {
		a := prev.Assets[den]
		if a.TotalTokens.IsZero() && a.TotalValidatorShares.IsZero() && prev.Height > 2 {
			x.Cnt.Inc("endblock.with_empty_or_drained_asset")
		}
		if a.TotalTokens.IsPositive() && a.TotalTokens.LTE(mi("2")) {
			x.Cnt.Inc("endblock.with_dust_only_asset")
		}
	}
	for v := range prev.Vals {
		for _, den := range prev.Denoms {
			a := prev.Assets[den]
			vs := prev.Vals[v].ValShares[den]
			if vs == nil || vs.Sign() <= 0 || !a.TotalValidatorShares.IsPositive() {
				continue
			}
			// the module's own 18-decimal pricing of the validator's shares: shares/total shares (rounded) x total tokens
			if ratDec(vs).Quo(a.TotalValidatorShares).MulInt(a.TotalTokens).IsZero() {
				x.Cnt.Inc("endblock.with_validator_share_priced_at_zero_tokens")
				for _, amt := range modulePending(x.W, x.Prev.Ctx, v) {
					if amt.Sign() > 0 {
						x.Cnt.Inc("endblock.with_pending_rewards_on_zero_priced_validator")
						break
					}
				}
			}
		}
	}
	if x.Res.Err == nil {
		return nil
	}
	cause := ""
	e := x.Res.Err.Error()
	switch {
	case x.Res.Panicked && strings.Contains(e, "integer divide by zero") && prev.Params.TakeRateClaimInterval == 0:
		cause = "take-rate-interval-zero"
	case strings.Contains(e, "insufficient funds") && strings.Contains(e, "failed to complete undelegations"):
		cause = "custody-short-at-unbonding-payout"
	case strings.Contains(e, "insufficient funds"):
		cause = "reward-pool-short"
	case x.Res.Panicked && strings.Contains(e, "overflow"):
		// weight decay computes changeRate^n with LegacyDec.Power: for an accepted rate > 1 and enough elapsed
		// intervals the power overflows before the result is clamped to the weight range
		for _, den := range prev.Denoms {
			a := prev.Assets[den]
			if a.RewardChangeInterval > 0 && a.RewardChangeRate.GT(mathOne()) {
				cause = "decay-power-overflow-at-rate-above-one"
			}
		}
	}
	kind := "error"
	if x.Res.Panicked {
		kind = "panic"
	}
	return []engine.Failure{fail("endblock-"+kind, cause, "EndBlocker at +%s failed: %v (params: interval=%s delay=%s last=%s)", prev.Time.Sub(world.Epoch), x.Res.Err, prev.Params.TakeRateClaimInterval, prev.Params.RewardDelayTime, prev.Params.LastTakeRateClaimTime)}
}

func c17Ops(tier string, full bool) func(n *engine.Node) []world.Op {
	base := Alpha{
		Dels: []int{0, 1}, Vals: []int{0, 1}, Denoms: []string{"aaa"},
		DelAmts: []string{"1", "10"}, UndAmts: []string{"1"}, UndAll: true,
		RedAmts: []string{"2"}, RedAll: true,
		SlashVals: []int{0, 1}, SlashF: []string{"0.5", "1"},
		Rewards: []world.Op{{K: world.KReward, Denom: "stake", Amt: "1000"}},
	}
	return func(n *engine.Node) []world.Op {
		ops := base.Ops(n)
		s := n.Snap()
		for _, dt := range []int64{int64(U), int64(3 * U), int64(7 * U), int64(300 * U)} {
			ops = append(ops, world.Op{K: world.KBlock, Dt: dt, Class: ClsBlock})
		}
		// every value of the params the update-params handler might accept
		for _, iv := range []int64{0, 1, int64(U), int64(2 * U)} {
			for _, last := range []string{"", "zero", "past", "future"} {
				a := map[string]string{"interval": fmt.Sprint(iv)}
				if last != "" {
					a["last"] = last
				}
				ops = append(ops, world.Op{K: world.KGovParams, Class: ClsGov, Args: a})
			}
		}
		for _, dl := range []int64{0, 1, int64(2 * U)} {
			ops = append(ops, world.Op{K: world.KGovParams, Class: ClsGov, Args: map[string]string{"delay": fmt.Sprint(dl)}})
		}
		// extreme accepted asset parameters
		if a, ok := s.Assets["aaa"]; ok {
			_ = a
			for _, v := range [][5]string{
				{"1", "0,5", "0.999999999999999999", "1", "0"},
				{"1", "0,5", "0.3", "0.000000000000000001", "1"},
				{"1", "0,1000000000000", "0.3", "2", "1"},
				{"5", "0,5", "0", "2", fmt.Sprint(int64(U))},
				{"0", "0,5", "0.5", "0.5", fmt.Sprint(int64(U))},
				{"1", "0,5", "0.3", "1", fmt.Sprint(int64(U))}, // neutral rate with an interval: no schedule yet
			} {
				var iv int64
				fmt.Sscan(v[4], &iv)
				ops = append(ops, world.Op{K: world.KGovUpdate, Denom: "aaa", Class: ClsGov, Args: govArgs("authority", v[0], v[1], v[2], v[3], iv, false)})
			}
		}
		if _, ok := s.Assets["zzz"]; !ok {
			ops = append(ops, world.Op{K: world.KGovCreate, Denom: "zzz", Class: ClsGov, Args: govArgs("authority", "2", "0,5", "0.5", "0.5", int64(U), false)})
		} else {
			ops = append(ops, world.Op{K: world.KDelegate, D: 0, V: 0, Denom: "zzz", Amt: "10", Class: ClsUser})
			ops = append(ops, world.Op{K: world.KGovDelete, Denom: "zzz", Class: ClsGov, Args: map[string]string{"signer": "authority"}})
		}
		if full {
			ops = append(ops, world.Op{K: world.KJail, V: 0, Class: ClsEnv}, world.Op{K: world.KUnjail, V: 0, Class: ClsEnv})
			ops = append(ops, world.Op{K: world.KNUndelegateAll, D: 99, V: 1, Class: ClsEnv})
		}
		return ops
	}
}

func init() {
	register(&Property{
		ID:    "C17",
		Title: "End-of-block processing never fails",
		Scenarios: func(tier string) []*engine.Scenario {
			cfg := world.DefaultConfig()
			cfg.DelFunds["zzz"] = "1000000"
			full := world.DefaultConfig()
			full.DelFunds["zzz"] = "1000000"
			full.FullPipeline = true
			seed := []world.Op{opDel(0, 0, "aaa", "10"), opDel(1, 1, "aaa", "3"), opBlock(1)}
			// two unbondings of one delegator from one validator in one block are already pending (shared queue record)
			packed := []world.Op{opDel(0, 0, "aaa", "10"), opDel(1, 1, "aaa", "3"), opBlock(1), opUnd(0, 0, "aaa", "1"), opUnd(0, 0, "aaa", "1"),
				{K: world.KUndelegateAll, D: 0, V: 0, Denom: "aaa"}, {K: world.KUndelegateAll, D: 1, V: 1, Denom: "aaa"}, opBlock(1)}
			// after a slash by a fraction that is not a power of 2 or 10 the module's staking delegations are worth a fractional
			// number of bond tokens (exchange rate != 1): everything the rebalance rounds now rounds for real
			slashed := []world.Op{opDel(0, 0, "aaa", "10"), opDel(1, 1, "aaa", "3"), opBlock(1), opSlash(0, "0.333333333333333333"), opBlock(1)}
			mk := func(name string, cfg world.Config, stores []string, budgets []int, depth int) *engine.Scenario {
				seeds := tierPick(tier, [][]world.Op{seed, packed}, [][]world.Op{seed, nil, packed})
				// aaa carries a neutral rate with an interval since block 1 and time has passed
				seeds = append(seeds, []world.Op{opDel(0, 0, "aaa", "10"), opDel(1, 1, "aaa", "3"), opBlock(1),
					{K: world.KGovUpdate, Denom: "aaa", Args: govArgs("authority", "1", "0,5", "0.3", "1", int64(U), false)}, opBlock(7), opBlock(300)})
				// aaa is one block away from a scheduled step that takes its weight to exactly zero (rate 1e-18 per nanosecond) while the
				// module still carries stake for it on the validators
				seeds = append(seeds, []world.Op{opDel(0, 0, "aaa", "10"), opDel(1, 1, "aaa", "3"), opBlock(1),
					{K: world.KGovUpdate, Denom: "aaa", Args: govArgs("authority", "1", "0,5", "0.3", "0.000000000000000001", 1, false)}, opBlock(1)})
				if cfg.FullPipeline {
					seeds = append(seeds, slashed)
				}
				return &engine.Scenario{
					Property: "C17", Name: name, Cfg: cfg, Stores: stores,
					Seeds: seeds, ClassNames: classNames, Budgets: budgets, MaxDepth: depth,
					Ops: c17Ops(tier, cfg.FullPipeline), Step: c17Step,
					// keep exploring after a failed EndBlocker only when it did not fail (a halted chain has no successor)
					Expand:   func(x *engine.Exec) bool { return !x.Res.Rejected && x.Res.Err == nil },
					Required: []string{"endblock.runs", "accepted.gov_params", "accepted.gov_update", "slash", "endblock.with_dust_only_asset", "endblock.with_empty_or_drained_asset", "gov.schedule_switched_on_for_rate_1_asset_with_interval"},
				}
			}
			// magnitudes: a validator whose share of an asset prices to zero tokens at 18 decimals (1 base unit against 3e18 and
			// 1e30 elsewhere) next to a regular position of another asset, with rewards pending on it when the rebalance settles
			magOps := func(n *engine.Node) []world.Op {
				return Alpha{Dels: []int{0, 1}, Vals: []int{0, 1}, Denoms: []string{"aaa", "bbb"}, DelAmts: []string{"1", "10"}, UndAll: true, Claim: true,
					SlashVals: []int{0, 1}, SlashF: []string{"0.5"},
					Rewards:  []world.Op{{K: world.KReward, Denom: "stake", Amt: "1000"}},
					BlockDts: dts(1, 3),
					Extra: func(n *engine.Node) []world.Op {
						return []world.Op{{K: world.KDelegate, D: 0, V: 0, Denom: "aaa", Amt: "1000000000000000000000000000000", Class: ClsUser}}
					}}.Ops(n)
			}
			mag := func(budgets []int, depth int) *engine.Scenario {
				sc := mk("c17-magnitude", cfg, world.ModuleStores, budgets, depth)
				sc.Seeds = [][]world.Op{
					{opDel(0, 0, "aaa", "3000000000000000000"), opDel(1, 1, "aaa", "1"), opDel(1, 1, "bbb", "5"), opBlock(1)},
					{opDel(0, 0, "aaa", "3000000000000000000"), opDel(0, 0, "bbb", "5"), opDel(1, 1, "aaa", "1"), opBlock(1)},
				}
				sc.Ops = magOps
				sc.Required = []string{"endblock.runs", "endblock.with_validator_share_priced_at_zero_tokens", "endblock.with_pending_rewards_on_zero_priced_validator"}
				return sc
			}
			if tier == "thorough" {
				return []*engine.Scenario{
					mag([]int{3, 1, 2, 3, 0}, 8),
					mk("c17-module", cfg, world.ModuleStores, []int{3, 1, 1, 3, 2}, 8),
					mk("c17-pipeline", full, world.AllStores, []int{2, 1, 2, 3, 1}, 6),
					unionScenario("C17", "c17-union", tier, c17Step, nil),
					unionFullScenario("C17", "c17-union-full-pipeline", tier, c17Step, nil, 7),
				}
			}
			// (the largest scenario runs last: it inherits the time the others leave unused)
			return []*engine.Scenario{
				mag([]int{2, 1, 1, 2, 0}, 5),
				mk("c17-pipeline", full, world.AllStores, []int{1, 1, 1, 2, 1}, 3),
				unionScenario("C17", "c17-union", tier, c17Step, nil),
				unionFullScenario("C17", "c17-union-full-pipeline", tier, c17Step, nil, 4),
				mk("c17-module", cfg, world.ModuleStores, []int{1, 1, 1, 2, 1}, 4),
			}
		},
		Assumptions: []string{
			"parameter values offered to MsgUpdateParams: interval {0, 1ns, 1u, 2u} x clock {unchanged, zero, past, future}, delay {0, 1ns, 2u}; only accepted updates lead on (rejections are counted)",
			"asset parameters offered to MsgUpdateAlliance: take rate 0.999999999999999999, change rates 1e-18 and 2 with a 1 ns interval, weight at both ends of its range; block steps 1u/3u/7u/300u",
			"c17-pipeline runs the whole ModuleManager.EndBlock/BeginBlock with jailing and a native full undelegation; c17-module runs alliance.EndBlocker alone",
		},
	})
}

func mathOne() math.LegacyDec { return math.LegacyOneDec() }

// ratDec converts an 18-decimal rational back into the SDK's fixed-point type (truncating).
func ratDec(r *big.Rat) math.LegacyDec {
	scaled := new(big.Rat).Mul(r, new(big.Rat).SetInt(new(big.Int).Exp(big.NewInt(10), big.NewInt(18), nil)))
	return math.LegacyNewDecFromBigIntWithPrec(world.Floor(scaled), 18)
}
