package props

import (
	"fmt"
	"strings"

	"cosmossdk.io/math"

	"verifmc/engine"
	"verifmc/world"
)

// assetPredicate: 0 <= takeRate < 1, min <= w <= max, changeRate > 0, interval >= 0.
func assetPredicate(s *world.Snap) []engine.Failure {
	var out []engine.Failure
	for _, den := range s.Denoms {
		a := s.Assets[den]
		bad := []string{}
		if a.TakeRate.IsNil() || a.TakeRate.IsNegative() || a.TakeRate.GTE(math.LegacyOneDec()) {
			bad = append(bad, fmt.Sprintf("takeRate=%s", a.TakeRate))
		}
		if a.RewardWeight.IsNil() || a.RewardWeightRange.Min.IsNil() || a.RewardWeightRange.Max.IsNil() ||
			a.RewardWeight.LT(a.RewardWeightRange.Min) || a.RewardWeight.GT(a.RewardWeightRange.Max) {
			bad = append(bad, fmt.Sprintf("weight=%s range=[%s,%s]", a.RewardWeight, a.RewardWeightRange.Min, a.RewardWeightRange.Max))
		}
		if a.RewardChangeRate.IsNil() || !a.RewardChangeRate.IsPositive() {
			bad = append(bad, fmt.Sprintf("changeRate=%s", a.RewardChangeRate))
		}
		if a.RewardChangeInterval < 0 {
			bad = append(bad, fmt.Sprintf("changeInterval=%d", a.RewardChangeInterval))
		}
		if len(bad) > 0 {
			out = append(out, fail("asset-predicate", "", "stored asset %s violates its parameter predicate: %s", den, strings.Join(bad, ", ")))
		}
	}
	return out
}

func c16Step(x *engine.Exec) []engine.Failure {
	prev := x.Prev.Snap()
	var out []engine.Failure
	isGov := strings.HasPrefix(x.Op.K, "gov_")
	if isGov {
		x.Cnt.Inc("gov." + x.Op.K)
		signer := x.Op.Args["signer"]
		legacy := x.Op.Args["legacy"] == "1"
		if x.Res.Rejected {
			x.Cnt.Inc("gov.rejected")
			if a, ok := prev.Assets[x.Op.Denom]; ok && x.Op.K == world.KGovDelete && a.TotalTokens.IsPositive() && (signer == "" || signer == "authority") {
				x.Cnt.Inc("gov.delete_refused_while_staked")
				if !a.TotalValidatorShares.IsPositive() {
					x.Cnt.Inc("gov.delete_refused_with_stake_but_zero_share_total")
				}
			}
			if x.Res.Panicked {
				x.Cnt.Inc("gov.rejected_by_panic")
			}
			// informational: does the handler write before failing? (tx semantics drop the branch; not a violation)
			if c, err := x.W.ExecGovKeepBranch(x.Prev.Ctx, x.Op); err != nil {
				if x.W.AllianceDigest(c) != x.W.AllianceDigest(x.Prev.Ctx) {
					x.Cnt.Inc("gov.rejected_after_writing_to_its_branch")
				}
			}
			return nil
		}
		x.Cnt.Inc("gov.accepted")
		if !legacy && signer != "" && signer != "authority" {
			out = append(out, fail("authority-gate", "", "%s succeeded for signer %q", x.Op.String(), signer))
		}
		next := x.Next.Snap()
		_, existed := prev.Assets[x.Op.Denom]
		switch x.Op.K {
		case world.KGovCreate:
			if existed {
				out = append(out, fail("whitelist-once", "", "%s succeeded although the denom is already whitelisted", x.Op.String()))
			}
			x.Cnt.Inc("gov.create_accepted")
		case world.KGovDelete:
			if a := prev.Assets[x.Op.Denom]; existed && a.TotalTokens.IsPositive() {
				out = append(out, fail("delete-while-staked", "", "%s succeeded with %s still staked", x.Op.String(), a.TotalTokens))
			}
			if _, still := next.Assets[x.Op.Denom]; still {
				out = append(out, fail("delete-while-staked", "not-deleted", "%s succeeded but the asset is still stored", x.Op.String()))
			}
			x.Cnt.Inc("gov.delete_accepted")
		case world.KGovUpdate:
			a, b := prev.Assets[x.Op.Denom], next.Assets[x.Op.Denom]
			if !existed {
				out = append(out, fail("update-fields", "created-by-update", "%s succeeded for an unknown denom", x.Op.String()))
			} else if !a.TotalTokens.Equal(b.TotalTokens) || !a.TotalValidatorShares.Equal(b.TotalValidatorShares) || a.Denom != b.Denom || !a.RewardStartTime.Equal(b.RewardStartTime) || a.IsInitialized != b.IsInitialized {
				out = append(out, fail("update-fields", "", "%s changed protected fields: total %s->%s shares %s->%s start %s->%s", x.Op.String(), a.TotalTokens, b.TotalTokens, a.TotalValidatorShares, b.TotalValidatorShares, a.RewardStartTime, b.RewardStartTime))
			}
			x.Cnt.Inc("gov.update_accepted")
		case world.KGovParams:
			x.Cnt.Inc("gov.params_accepted")
		}
		// no other asset is touched by a governance message about one denom
		for _, den := range prev.Denoms {
			if den == x.Op.Denom || x.Op.K == world.KGovParams {
				continue
			}
			a, b := prev.Assets[den], next.Assets[den]
			if a.String() != b.String() {
				out = append(out, fail("update-fields", "other-asset-touched", "%s changed asset %s", x.Op.String(), den))
			}
		}
	}
	if x.Res.Rejected {
		return out
	}
	if x.Op.K == world.KBlock {
		for _, den := range prev.Denoms {
			if !prev.Assets[den].RewardWeight.Equal(x.Next.Snap().Assets[den].RewardWeight) {
				x.Cnt.Inc("block.decayed_weight")
			}
		}
	}
	out = append(out, assetPredicate(x.Next.Snap())...)
	return out
}

func govArgs(signer, w, rng, take, rate string, interval int64, legacy bool) map[string]string {
	a := map[string]string{"w": w, "take": take, "rate": rate, "interval": fmt.Sprint(interval)}
	if signer != "" {
		a["signer"] = signer
	}
	switch rng {
	case "nil":
		a["min"], a["max"] = "nil", "nil"
	default:
		p := strings.Split(rng, ",")
		a["min"], a["max"] = p[0], p[1]
	}
	if legacy {
		a["legacy"] = "1"
	}
	return a
}

func c16Product(tier string) func(n *engine.Node) []world.Op {
	signersFull := []string{"authority"}
	signersOther := []string{"user", "module", "empty", "malformed"}
	denoms := []string{"aaa", "bbb", "ccc", "zzz", "", "!bad"}
	// 9223372036854775807 (MaxInt64) is the upper bound the v4 migration gives every pre-existing alliance: a constant of the
	// code base, offered as a range bound together with the weight just above it
	weights := []string{"nil", "-1", "0", "0.5", "1", "5", "6", "9223372036854775808"}
	// (2,5) and (0,0.5) are well-formed ranges that exclude the stored weights (1 and 2) of the seeded assets
	ranges := []string{"nil", "0,5", "1,1", "2,1", "-1,5", "2,5", "0,0.5", "0,9223372036854775807"}
	takes := []string{"nil", "-0.1", "0", "0.5", "0.999999999999999999", "1", "2"}
	rates := []string{"nil", "-1", "0", "0.000000000000000001", "0.5", "1", "2"}
	intervals := []int64{-1, 0, int64(U), int64(2 * U)}
	if tier == "never" {
		// trimmed product (unused: the full product is cheap enough for the quick tier): drop one interior value per menu
		weights = []string{"nil", "-1", "0", "1", "5", "6"}
		takes = []string{"nil", "-0.1", "0", "0.999999999999999999", "1"}
		rates = []string{"nil", "-1", "0", "0.000000000000000001", "1", "2"}
		intervals = []int64{-1, 0, int64(U)}
		denoms = []string{"aaa", "bbb", "ccc", "zzz", ""}
	}
	var ops []world.Op
	for _, kind := range []string{world.KGovCreate, world.KGovUpdate} {
		for _, legacy := range []bool{false, true} {
			for _, den := range denoms {
				for _, w := range weights {
					for _, r := range ranges {
						for _, t := range takes {
							for _, cr := range rates {
								for _, iv := range intervals {
									for _, s := range signersFull {
										ops = append(ops, world.Op{K: kind, Denom: den, Class: ClsGov, Args: govArgs(s, w, r, t, cr, iv, legacy)})
									}
								}
							}
						}
					}
				}
			}
		}
		// other signers: each field valid or one invalid representative
		for _, s := range signersOther {
			for _, den := range []string{"aaa", "bbb", "zzz"} {
				for _, w := range []string{"1", "6"} {
					for _, t := range []string{"0", "1"} {
						for _, cr := range []string{"1", "0"} {
							ops = append(ops, world.Op{K: kind, Denom: den, Class: ClsGov, Args: govArgs(s, w, "0,5", t, cr, 0, false)})
						}
					}
				}
			}
		}
	}
	for _, s := range append(append([]string{}, signersFull...), signersOther...) {
		for _, den := range denoms {
			ops = append(ops, world.Op{K: world.KGovDelete, Denom: den, Class: ClsGov, Args: map[string]string{"signer": s}})
		}
		for _, iv := range []int64{-1, 0, 1, int64(U), int64(2 * U)} {
			for _, dl := range []int64{-1, 0, int64(2 * U)} {
				for _, last := range []string{"", "zero", "past", "now", "future"} {
					a := map[string]string{"signer": s, "interval": fmt.Sprint(iv), "delay": fmt.Sprint(dl)}
					if last != "" {
						a["last"] = last
					}
					ops = append(ops, world.Op{K: world.KGovParams, Class: ClsGov, Args: a})
				}
			}
		}
	}
	for _, den := range denoms {
		ops = append(ops, world.Op{K: world.KGovDelete, Denom: den, Class: ClsGov, Args: map[string]string{"legacy": "1"}})
	}
	return func(n *engine.Node) []world.Op { return ops }
}

func init() {
	register(&Property{
		ID:    "C16",
		Title: "Governance gate and asset-parameter validity",
		Scenarios: func(tier string) []*engine.Scenario {
			cfg := world.DefaultConfig()
			cfg.RewardDelay = 4 * U
			cfg.DelFunds["ccc"] = "1000000"
			cfg.DelFunds["zzz"] = "1000000"
			upd := func(den, w, rng, take, rate string, iv int64) world.Op {
				return world.Op{K: world.KGovUpdate, Denom: den, Args: govArgs("authority", w, rng, take, rate, iv, false)}
			}
			// asset states: aaa staked and decaying, bbb empty, ccc mid-warm-up (created with RewardDelayTime 4u) and staked
			states := []world.Op{
				opDel(0, 0, "aaa", "1000"), opDel(1, 1, "aaa", "7"),
				upd("aaa", "1", "0,5", "0.3", "0.5", int64(U)),
				{K: world.KGovCreate, Denom: "ccc", Args: govArgs("authority", "2", "0,5", "0.5", "1", 0, false)},
				opDel(0, 0, "ccc", "10"), opBlock(1),
			}
			prod := &engine.Scenario{
				Property: "C16", Name: "c16-field-product", Cfg: cfg, Stores: world.ModuleStores,
				Seeds: [][]world.Op{states, nil}, ClassNames: classNames, Budgets: []int{0, 0, 0, 0, 1}, MaxDepth: 1,
				Ops: c16Product(tier), Step: c16Step, SeedStep: true,
				Required: []string{"gov.accepted", "gov.rejected", "gov.rejected_by_panic", "gov.create_accepted", "gov.update_accepted", "gov.delete_accepted", "gov.params_accepted"},
			}
			// sequences of accepted messages interleaved with blocks (decay) and staking: the inductive predicate
			seqOps := func(n *engine.Node) []world.Op {
				var ops []world.Op
				for _, den := range []string{"aaa", "zzz"} {
					for _, v := range [][5]string{
						{"1", "0,5", "0.3", "0.5", fmt.Sprint(int64(U))},
						{"0.5", "0.4,0.6", "0", "0.9", fmt.Sprint(int64(2 * U))},
						{"1", "1,1", "0.999999999999999999", "2", fmt.Sprint(int64(U))},
						{"5", "0,5", "0.5", "1.5", fmt.Sprint(int64(U))},
						{"0", "0,0", "0", "0.000000000000000001", "1"},
					} {
						var iv int64
						fmt.Sscan(v[4], &iv)
						ops = append(ops, world.Op{K: world.KGovCreate, Denom: den, Class: ClsGov, Args: govArgs("authority", v[0], v[1], v[2], v[3], iv, false)})
						ops = append(ops, world.Op{K: world.KGovUpdate, Denom: den, Class: ClsGov, Args: govArgs("authority", v[0], v[1], v[2], v[3], iv, false)})
					}
					ops = append(ops, world.Op{K: world.KGovDelete, Denom: den, Class: ClsGov, Args: map[string]string{"signer": "authority"}})
					ops = append(ops, world.Op{K: world.KDelegate, D: 0, V: 0, Denom: den, Amt: "10", Class: ClsUser})
					ops = append(ops, world.Op{K: world.KUndelegateAll, D: 0, V: 0, Denom: den, Class: ClsUser})
				}
				for _, dt := range dts(1, 3, 7) {
					ops = append(ops, world.Op{K: world.KBlock, Dt: int64(dt), Class: ClsBlock})
				}
				return ops
			}
			seq := &engine.Scenario{
				Property: "C16", Name: "c16-sequences", Cfg: cfg, Stores: world.ModuleStores,
				Seeds: [][]world.Op{nil}, ClassNames: classNames, Budgets: tierPick(tier, []int{2, 0, 0, 2, 3}, []int{2, 0, 0, 3, 3}), MaxDepth: tierPick(tier, 5, 7),
				Ops: seqOps, Step: c16Step,
				Required: []string{"gov.accepted", "block.decayed_weight"},
			}
			// "deleted only while nothing is staked" along staking histories: the staked total and the share totals move apart
			// under slashes (a 100% slash of every holder zeroes the share total and leaves the staked total) and take-rate deductions
			delOps := func(n *engine.Node) []world.Op {
				ops := Alpha{Dels: []int{0, 1}, Vals: []int{0, 1}, Denoms: []string{"aaa"}, UndAll: true, RedAll: tier == "thorough",
					SlashVals: []int{0, 1}, SlashF: []string{"0.5", "1"}, BlockDts: dts(2, 4)}.Ops(n)
				ops = append(ops, world.Op{K: world.KGovDelete, Denom: "aaa", Class: ClsGov, Args: map[string]string{"signer": "authority"}})
				ops = append(ops, world.Op{K: world.KGovDelete, Denom: "aaa", Class: ClsGov, Args: map[string]string{"legacy": "1"}})
				return ops
			}
			del := &engine.Scenario{
				Property: "C16", Name: "c16-delete-lifecycle", Cfg: cfg, Stores: world.ModuleStores,
				Seeds:      [][]world.Op{{opDel(0, 0, "aaa", "1000"), opDel(1, 1, "aaa", "7")}, {opDel(0, 0, "aaa", "1000")}},
				ClassNames: classNames, Budgets: tierPick(tier, []int{3, 2, 0, 2, 2}, []int{4, 3, 0, 3, 2}), MaxDepth: tierPick(tier, 8, 10),
				Ops: delOps, Step: c16Step, SeedStep: true,
				Required: []string{"gov.delete_accepted", "gov.delete_refused_while_staked", "gov.delete_refused_with_stake_but_zero_share_total"},
			}
			return []*engine.Scenario{prod, seq, del}
		},
		Assumptions: []string{
			"field menus of DESIGN §4 C16 (nil, negative, boundary, huge); quick tier drops one interior value per menu, thorough runs the full product; non-authority signers are combined with a valid/one-invalid menu",
			"'a rejected request changes no state' is enforced at transaction level by the harness applying runTx semantics (a failing handler's branch is dropped); handlers that write to their branch before failing are counted in the evidence (gov.rejected_after_writing_to_its_branch), not reported",
			"legacy proposal contents are executed through Content.ValidateBasic followed by alliance.NewAllianceProposalHandler, as x/gov does",
		},
	})
}
