package props

import (
	"encoding/json"
	"fmt"
	"math/big"
	"sort"
	"strings"

	"cosmossdk.io/math"
	sdk "github.com/cosmos/cosmos-sdk/types"
	"github.com/cosmos/cosmos-sdk/types/query"

	"github.com/terra-money/alliance/x/alliance/bindings"
	btypes "github.com/terra-money/alliance/x/alliance/bindings/types"
	"github.com/terra-money/alliance/x/alliance/keeper"
	"github.com/terra-money/alliance/x/alliance/types"

	"verifmc/engine"
	"verifmc/world"
)

// multiset canonicalises a list of "key:amountDENOM..." items; entries with the same key (same validator(s), denom and
// completion time) are aggregated, because such entries are indistinguishable to a reader of the query (redelegating
// A->B twice in one block is stored as one record holding the sum).
func multiset(items []string) string {
	agg := map[string]*big.Int{}
	for _, it := range items {
		i := strings.Index(it, ":")
		j := i + 1
		for j < len(it) && it[j] >= '0' && it[j] <= '9' {
			j++
		}
		if i < 0 || j == i+1 {
			agg[it] = nil
			continue
		}
		k := it[:i] + it[j:]
		n, _ := new(big.Int).SetString(it[i+1:j], 10)
		if agg[k] == nil {
			agg[k] = new(big.Int)
		}
		agg[k].Add(agg[k], n)
	}
	var out []string
	for k, v := range agg {
		if v == nil {
			out = append(out, k)
		} else {
			out = append(out, k+"="+v.String())
		}
	}
	sort.Strings(out)
	return strings.Join(out, " ")
}

// c20Queries runs every query with every filter argument in state n and compares with the reference enumeration.
func c20Queries(x *engine.Exec, ref *pendRef) []engine.Failure {
	w := x.W
	ctx := x.Next.Ctx
	s := x.Next.Snap()
	qs := keeper.NewQueryServerImpl(w.App.AllianceKeeper)
	var out []engine.Failure
	seen := map[string]bool{}
	add := func(f engine.Failure) {
		k := f.Oracle + "|" + f.Cause
		if !seen[k] {
			seen[k] = true
			out = append(out, f)
		}
	}
	denoms := append([]string{}, s.Denoms...)
	// validators that x/staking removed although alliance delegation records still point at them (K-C10-validator-removed):
	// every delegation query that has to price such a record fails
	const removedCause = "validator-removed-from-staking-with-alliance-delegations"
	removed := map[int]bool{}
	delOnRemoved := map[int]bool{}
	rc := func(cause string, cond bool) string {
		if cond && (cause == "" || cause == "error") {
			return removedCause
		}
		return cause
	}
	gone := map[int]bool{} // not in x/staking any more and no alliance record points at it: "not found" is an exact answer
	for v := range w.Vals {
		if _, err := w.App.StakingKeeper.GetValidator(ctx, w.Vals[v]); err != nil {
			gone[v] = true
			for _, p := range s.Pos {
				if p.V == v {
					removed[v] = true
					delOnRemoved[p.D] = true
					gone[v] = false
				}
			}
			x.Cnt.Inc("state.validator_removed_from_staking")
			for _, u := range ref.Unb {
				if u.V == v {
					x.Cnt.Inc("state.pending_unbonding_from_removed_validator")
					break
				}
			}
		}
	}
	unbKey := func(v int, c int64, amt string, den string) string {
		return fmt.Sprintf("v%d@%d:%s%s", v, c, amt, den)
	}
	valIdx := func(addr string) int {
		for i, v := range w.Vals {
			if v.String() == addr {
				return i
			}
		}
		return -1
	}
	fmtUnb := func(us []types.UnbondingDelegation) []string {
		var got []string
		for _, u := range us {
			got = append(got, unbKey(valIdx(u.ValidatorAddress), u.CompletionTime.UnixNano(), u.Amount.String(), u.Denom))
		}
		return got
	}
	classifyUnb := func(got, want []string) string {
		// bucket-wide answers: every returned entry exists in the delegator's buckets but belongs to another validator/denom, or is repeated
		if len(got) > len(want) {
			return "whole-bucket-returned"
		}
		return ""
	}
	for d := range w.Dels[:2] {
		// --- unbondings
		var wantAll []string
		for _, den := range denoms {
			var wantDen []string
			for v := range w.Vals {
				var want []string
				for _, u := range ref.Unb {
					if u.D == d && u.V == v && u.Denom == den {
						want = append(want, unbKey(v, u.C, u.Amt.String(), den))
					}
				}
				wantDen = append(wantDen, want...)
				res, err := qs.AllianceUnbondings(ctx, &types.QueryAllianceUnbondingsRequest{Denom: den, DelegatorAddr: w.Dels[d].String(), ValidatorAddr: w.Vals[v].String()})
				x.Cnt.Inc("query.unbondings")
				if err != nil {
					add(fail("unbondings", "error", "AllianceUnbondings(d%d,v%d,%s): %v", d, v, den, err))
					continue
				}
				got := fmtUnb(res.Unbondings)
				if len(want) > 0 {
					x.Cnt.Inc("query.unbondings.nonempty")
				}
				if multiset(got) != multiset(want) {
					add(fail("unbondings", classifyUnb(got, want), "AllianceUnbondings(d%d,v%d,%s) = [%s], pending entries are [%s]", d, v, den, multiset(got), multiset(want)))
				}
			}
			wantAll = append(wantAll, wantDen...)
			res, err := qs.AllianceUnbondingsByDenomAndDelegator(ctx, &types.QueryAllianceUnbondingsByDenomAndDelegatorRequest{Denom: den, DelegatorAddr: w.Dels[d].String()})
			if err != nil {
				add(fail("unbondings-by-denom", "error", "(d%d,%s): %v", d, den, err))
			} else if got := fmtUnb(res.Unbondings); multiset(got) != multiset(wantDen) {
				add(fail("unbondings-by-denom", classifyUnb(got, wantDen), "AllianceUnbondingsByDenomAndDelegator(d%d,%s) = [%s], pending entries are [%s]", d, den, multiset(got), multiset(wantDen)))
			}
		}
		res, err := qs.AllianceUnbondingsByDelegator(ctx, &types.QueryAllianceUnbondingsByDelegatorRequest{DelegatorAddr: w.Dels[d].String()})
		if err != nil {
			add(fail("unbondings-by-delegator", "error", "(d%d): %v", d, err))
		} else if got := fmtUnb(res.Unbondings); multiset(got) != multiset(wantAll) {
			add(fail("unbondings-by-delegator", classifyUnb(got, wantAll), "AllianceUnbondingsByDelegator(d%d) = [%s], pending entries are [%s]", d, multiset(got), multiset(wantAll)))
		}
		// --- redelegations (paginated and not)
		redKey := func(src, dst int, amt, den string, c int64) string {
			return fmt.Sprintf("v%d->v%d:%s%s@%d", src, dst, amt, den, c)
		}
		fmtRed := func(rs []types.RedelegationEntry) []string {
			var got []string
			for _, r := range rs {
				got = append(got, redKey(valIdx(r.SrcValidatorAddress), valIdx(r.DstValidatorAddress), r.Balance.Amount.String(), r.Balance.Denom, r.CompletionTime.UnixNano()))
			}
			return got
		}
		classifyRed := func(den string) string {
			// merged primary record: several pending entries of this delegator share (denom, destination, completion) with different sources
			seen := map[string]int{}
			for _, r := range ref.Red {
				if r.D == d && (den == "" || r.Denom == den) {
					k := fmt.Sprintf("%s/%d/%d", r.Denom, r.Dst, r.C)
					if prev, ok := seen[k]; ok && prev != r.Src {
						return "redelegation-record-merged-sources"
					}
					seen[k] = r.Src
				}
			}
			return ""
		}
		var wantRedAll []string
		for _, den := range denoms {
			var want []string
			for _, r := range ref.Red {
				if r.D == d && r.Denom == den {
					want = append(want, redKey(r.Src, r.Dst, r.Amt.String(), den, r.C))
				}
			}
			wantRedAll = append(wantRedAll, want...)
			for _, limit := range []uint64{0, 1, 2} {
				var got []string
				var next []byte
				pages := 0
				for {
					req := &types.QueryAllianceRedelegationsRequest{Denom: den, DelegatorAddr: w.Dels[d].String()}
					if limit > 0 {
						req.Pagination = &query.PageRequest{Limit: limit, Key: next}
					}
					res, err := qs.AllianceRedelegations(ctx, req)
					x.Cnt.Inc("query.redelegations")
					if err != nil {
						add(fail("redelegations", "error", "AllianceRedelegations(d%d,%s,limit %d): %v", d, den, limit, err))
						break
					}
					got = append(got, fmtRed(res.Redelegations)...)
					pages++
					if limit == 0 || res.Pagination == nil || len(res.Pagination.NextKey) == 0 || pages > 20 {
						break
					}
					next = res.Pagination.NextKey
				}
				if pages > 1 {
					x.Cnt.Inc("query.redelegations.followed_next_key")
				}
				if multiset(got) != multiset(want) {
					add(fail("redelegations", classifyRed(den), "AllianceRedelegations(d%d,%s,limit %d) = [%s], pending entries are [%s]", d, den, limit, multiset(got), multiset(want)))
				}
			}
		}
		res2, err := qs.AllianceRedelegationsByDelegator(ctx, &types.QueryAllianceRedelegationsByDelegatorRequest{DelegatorAddr: w.Dels[d].String()})
		if err != nil {
			add(fail("redelegations-by-delegator", "error", "(d%d): %v", d, err))
		} else if got := fmtRed(res2.Redelegations); multiset(got) != multiset(wantRedAll) {
			add(fail("redelegations-by-delegator", classifyRed(""), "AllianceRedelegationsByDelegator(d%d) = [%s], pending entries are [%s]", d, multiset(got), multiset(wantRedAll)))
		}
		// --- delegations
		posKey := func(v int, den string, shares math.LegacyDec, bal math.Int) string {
			return fmt.Sprintf("v%d/%s/%s=%s", v, den, shares, bal)
		}
		var wantPos []string
		for _, p := range s.Pos {
			if p.D == d {
				wantPos = append(wantPos, posKey(p.V, p.Denom, p.Raw.Shares, p.Reported))
			}
		}
		for _, limit := range []uint64{0, 1} {
			var got []string
			var next []byte
			for pages := 0; pages < 30; pages++ {
				req := &types.QueryAlliancesDelegationsRequest{DelegatorAddr: w.Dels[d].String()}
				if limit > 0 {
					req.Pagination = &query.PageRequest{Limit: limit, Key: next}
				}
				res, err := qs.AlliancesDelegation(ctx, req)
				if err != nil {
					add(fail("delegations", rc("error", delOnRemoved[d]), "AlliancesDelegation(d%d): %v", d, err))
					break
				}
				for _, dr := range res.Delegations {
					got = append(got, posKey(valIdx(dr.Delegation.ValidatorAddress), dr.Delegation.Denom, dr.Delegation.Shares, dr.Balance.Amount))
				}
				if limit == 0 || res.Pagination == nil || len(res.Pagination.NextKey) == 0 {
					break
				}
				next = res.Pagination.NextKey
			}
			if multiset(got) != multiset(wantPos) {
				add(fail("delegations", rc("", delOnRemoved[d]), "AlliancesDelegation(d%d,limit %d) = [%s], records are [%s]", d, limit, multiset(got), multiset(wantPos)))
			}
		}
		for v := range w.Vals {
			var want []string
			for _, p := range s.Pos {
				if p.D == d && p.V == v {
					want = append(want, posKey(p.V, p.Denom, p.Raw.Shares, p.Reported))
				}
			}
			res, err := qs.AlliancesDelegationByValidator(ctx, &types.QueryAlliancesDelegationByValidatorRequest{DelegatorAddr: w.Dels[d].String(), ValidatorAddr: w.Vals[v].String()})
			if err != nil {
				if !(gone[v] && len(want) == 0) {
					add(fail("delegations-by-validator", rc("error", removed[v]), "(d%d,v%d): %v", d, v, err))
				}
			} else {
				var got []string
				for _, dr := range res.Delegations {
					got = append(got, posKey(valIdx(dr.Delegation.ValidatorAddress), dr.Delegation.Denom, dr.Delegation.Shares, dr.Balance.Amount))
				}
				if multiset(got) != multiset(want) {
					add(fail("delegations-by-validator", "", "AlliancesDelegationByValidator(d%d,v%d) = [%s], records are [%s]", d, v, multiset(got), multiset(want)))
				}
			}
			for _, den := range denoms {
				p, has := s.FindPos(d, v, den)
				res, err := qs.AllianceDelegation(ctx, &types.QueryAllianceDelegationRequest{DelegatorAddr: w.Dels[d].String(), ValidatorAddr: w.Vals[v].String(), Denom: den})
				x.Cnt.Inc("query.delegation")
				if err != nil {
					if !(gone[v] && !has) {
						add(fail("delegation", rc("error", removed[v]), "AllianceDelegation(d%d,v%d,%s): %v", d, v, den, err))
					}
					continue
				}
				bal := res.Delegation.Balance.Amount
				wantBal := math.ZeroInt()
				if has {
					wantBal = p.Reported
				}
				if !bal.Equal(wantBal) {
					add(fail("delegation", "balance", "AllianceDelegation(d%d,v%d,%s) balance %s, independent recomputation %s", d, v, den, bal, wantBal))
				}
				// the balance the query reports is priced exactly as Undelegate/Redelegate price the position's shares: the two
				// are separate functions of the module (GetDelegationTokens / GetDelegationTokensWithShares)
				if has {
					if av, err := w.App.AllianceKeeper.GetAllianceValidator(ctx, w.Vals[v]); err == nil {
						if asset, ok := s.Assets[den]; ok {
							x.Cnt.Inc("query.balance_vs_undelegate_pricing")
							if own := types.GetDelegationTokensWithShares(p.Raw.Shares, av, asset).Amount; !own.Equal(bal) {
								add(fail("balance-pricing", "", "AllianceDelegation(d%d,v%d,%s) reports %s but Undelegate prices the same shares at %s", d, v, den, bal, own))
							}
						}
					}
				}
				// binding query reports the same value
				bres, berr := bindings.CustomQuerier(bindings.NewAllianceQueryPlugin(&w.App.AllianceKeeper))(ctx, mustJSON(btypes.AllianceQuery{Delegation: &btypes.Delegation{Denom: den, Delegator: w.Dels[d].String(), Validator: w.Vals[v].String()}}))
				if has {
					var br btypes.DelegationResponse
					if berr != nil || json.Unmarshal(bres, &br) != nil || br.Amount != bal.String() || br.Denom != den || br.Delegator != w.Dels[d].String() || br.Validator != w.Vals[v].String() {
						add(fail("binding-delegation", "", "binding delegation(d%d,v%d,%s) = %s err=%v, gRPC balance %s", d, v, den, string(bres), berr, bal))
					}
					x.Cnt.Inc("query.binding.delegation")
				}
				// binding: claimable rewards equal the gRPC answer (both claim on a context; each gets its own discarded branch)
				if has {
					c1, _ := ctx.CacheContext()
					c2, _ := ctx.CacheContext()
					gr, gerr := qs.AllianceDelegationRewards(c1, &types.QueryAllianceDelegationRewardsRequest{DelegatorAddr: w.Dels[d].String(), ValidatorAddr: w.Vals[v].String(), Denom: den})
					bres, berr := bindings.CustomQuerier(bindings.NewAllianceQueryPlugin(&w.App.AllianceKeeper))(c2, mustJSON(btypes.AllianceQuery{DelegationRewards: &btypes.DelegationRewards{Denom: den, Delegator: w.Dels[d].String(), Validator: w.Vals[v].String()}}))
					if (gerr == nil) != (berr == nil) {
						add(fail("binding-rewards", "", "delegation_rewards(d%d,v%d,%s): gRPC err %v, binding err %v", d, v, den, gerr, berr))
					} else if gerr == nil {
						var br btypes.DelegationRewardsResponse
						if json.Unmarshal(bres, &br) != nil || !sdk.Coins(br.Rewards).Equal(sdk.Coins(gr.Rewards)) {
							add(fail("binding-rewards", "", "delegation_rewards(d%d,v%d,%s): binding %s vs gRPC %s", d, v, den, string(bres), gr.Rewards))
						}
						if !sdk.Coins(gr.Rewards).IsZero() {
							x.Cnt.Inc("query.binding.rewards_nonzero")
						}
					}
					x.Cnt.Inc("query.binding.rewards")
				}
				// the reported balance is what can be undelegated right now: b succeeds, b+1 fails (discarded branches)
				if has && bal.IsPositive() {
					r := w.Exec(ctx, world.Op{K: world.KUndelegate, D: d, V: v, Denom: den, Amt: bal.String()})
					x.Cnt.Inc("probe.undelegate_balance")
					if r.Err != nil {
						add(fail("balance-withdrawable", c20ClassifyExit(x, s, p, r.Err), "%s reports %s (exact %s) but Undelegate(%s) fails: %v", p.Key(), bal, world.RatF(p.Value), bal, r.Err))
					}
					r = w.Exec(ctx, world.Op{K: world.KUndelegate, D: d, V: v, Denom: den, Amt: bal.AddRaw(1).String()})
					if r.Err == nil {
						add(fail("balance-withdrawable", "more-than-reported", "%s reports %s (exact %s) but Undelegate(%s) succeeds", p.Key(), bal, world.RatF(p.Value), bal.AddRaw(1)))
					}
				}
			}
		}
	}
	// AllAlliancesDelegations
	{
		var want, got []string
		for _, p := range s.Pos {
			want = append(want, fmt.Sprintf("d%d/v%d/%s/%s=%s", p.D, p.V, p.Denom, p.Raw.Shares, p.Reported))
		}
		res, err := qs.AllAlliancesDelegations(ctx, &types.QueryAllAlliancesDelegationsRequest{})
		if err != nil {
			add(fail("all-delegations", rc("error", len(removed) > 0), "%v", err))
		} else {
			for _, dr := range res.Delegations {
				di := -2
				for i, a := range w.Dels {
					if a.String() == dr.Delegation.DelegatorAddress {
						di = i
					}
				}
				got = append(got, fmt.Sprintf("d%d/v%d/%s/%s=%s", di, valIdx(dr.Delegation.ValidatorAddress), dr.Delegation.Denom, dr.Delegation.Shares, dr.Balance.Amount))
			}
			if multiset(got) != multiset(want) {
				add(fail("all-delegations", rc("", len(removed) > 0), "AllAlliancesDelegations = [%s], records are [%s]", multiset(got), multiset(want)))
			}
		}
	}
	// binding: alliance asset view equals the gRPC one field by field (times as Unix nanoseconds)
	for _, den := range s.Denoms {
		gres, err := qs.Alliance(ctx, &types.QueryAllianceRequest{Denom: den})
		bres, berr := bindings.CustomQuerier(bindings.NewAllianceQueryPlugin(&w.App.AllianceKeeper))(ctx, mustJSON(btypes.AllianceQuery{Alliance: &btypes.Alliance{Denom: den}}))
		if err != nil || berr != nil {
			add(fail("binding-alliance", "error", "%s: grpc err %v, binding err %v", den, err, berr))
			continue
		}
		var br btypes.AllianceResponse
		if json.Unmarshal(bres, &br) != nil {
			add(fail("binding-alliance", "error", "%s: cannot decode %s", den, string(bres)))
			continue
		}
		a := gres.Alliance
		x.Cnt.Inc("query.binding.alliance")
		if br.Denom != a.Denom || br.RewardWeight != a.RewardWeight.String() || br.TakeRate != a.TakeRate.String() || br.TotalTokens != a.TotalTokens.String() ||
			br.TotalValidatorShares != a.TotalValidatorShares.String() || br.RewardChangeRate != a.RewardChangeRate.String() ||
			br.RewardWeightRange.Min != a.RewardWeightRange.Min.String() || br.RewardWeightRange.Max != a.RewardWeightRange.Max.String() || br.IsInitialized != a.IsInitialized {
			add(fail("binding-alliance", "field-mismatch", "%s: binding %s vs gRPC %v", den, string(bres), a))
		}
		if br.RewardStartTime != uint64(a.RewardStartTime.UnixNano()) || br.LastRewardChangeTime != uint64(a.LastRewardChangeTime.UnixNano()) {
			c := ""
			if br.RewardStartTime == uint64(a.RewardStartTime.Nanosecond()) && br.LastRewardChangeTime == uint64(a.LastRewardChangeTime.Nanosecond()) {
				c = "binding-time-is-subsecond-part"
			}
			add(fail("binding-alliance", c, "%s: binding reports reward_start_time=%d last_reward_change_time=%d; gRPC times are %d / %d Unix ns", den, br.RewardStartTime, br.LastRewardChangeTime, a.RewardStartTime.UnixNano(), a.LastRewardChangeTime.UnixNano()))
		}
	}
	return out
}

func mustJSON(v any) []byte {
	b, err := json.Marshal(v)
	if err != nil {
		panic(err)
	}
	return b
}

func c20ClassifyExit(x *engine.Exec, s *world.Snap, p world.Pos, err error) string {
	e := err.Error()
	vs := s.Vals[p.V]
	D, vt := vs.DelShares[p.Denom], vs.Tokens[p.Denom]
	short := strings.Contains(e, "insufficient delegation shares") || strings.Contains(e, "insufficient tokens")
	switch {
	case strings.Contains(e, "insufficient funds"):
		if valueChangeAfterReward(x) {
			return "reward-pool-short"
		}
		if anyRoundedUp(s) {
			return "payout-on-rounded-up-token-amount"
		}
		return ""
	case (short || strings.Contains(e, "negative coin amount")) && bigAsset(s, p.Denom):
		// K-C05-share-ratio-precision: tokens -> shares -> tokens through 18-decimal ratios loses whole units from 2e16 base
		// units on; the query and Undelegate price identically (checked separately), the round trip inside Undelegate does not
		return ratioCause
	case short && D != nil && D.Sign() > 0 && D.Cmp(ratI(1)) < 0 && historyHasSlash(x, -1, false):
		return "full-exit-below-one-delegator-share"
	case short && D != nil && vt != nil && vt.Sign() > 0 && world.RatInt(p.Reported).Cmp(p.Value) > 0 && ratMul(ratQuo(D, vt), ratSub(world.RatInt(p.Reported), p.Value)).Cmp(ratQuo(ratI(1), ratI(100))) >= 0 && needsMoreWholeShares(p, D, vt):
		return "reported-balance-rounded-up-beyond-share-window"
	case s.Assets[p.Denom].TotalValidatorShares.IsZero() && s.Assets[p.Denom].TotalTokens.IsPositive() && historyHasSlash(x, -1, true):
		return "asset-fully-slashed-total-without-shares"
	}
	return ""
}

func c20Step(x *engine.Exec) []engine.Failure {
	ref := x.Next.Ref.(*pendRef)
	if x.Res.Rejected {
		return nil
	}
	prev := x.Prev.Snap()
	switch x.Op.K {
	case world.KUndelegate, world.KUndelegateAll:
		ref.onUndelegate(x)
	case world.KRedelegate, world.KRedelegateAll:
		ref.onRedelegate(x)
	case world.KBlock:
		ref.onEndBlock(prev.Time)
	case world.KSlash:
		if x.Res.Err != nil {
			// the slash callback aborted (K-C08-reward-pool-short is the only way on this tree) and left whatever it had
			// written: the list model cannot know how far it got, so the reference amounts are re-read from the raw
			// decode of the queue (first run applied the full slash to the reference and reported the queries: a false
			// alarm of the model, the queries showed exactly what is stored)
			x.Cnt.Inc("state.after_aborted_slash_callback")
			ref.resyncUnb(x.Next.Snap())
		} else {
			ref.onSlash(x.Op.V, world.Rat(x.Res.EffFrac), prev.Time)
		}
		x.Cnt.Inc("state.after_slash")
	case world.KReimport:
		if x.Res.Err != nil {
			return []engine.Failure{fail("reimport", "", "export/import failed: %v", x.Res.Err)}
		}
		x.Cnt.Inc("state.after_genesis_reimport")
	}
	nBucket := map[string]int{}
	for _, u := range ref.Unb {
		nBucket[fmt.Sprintf("%d@%d", u.D, u.C)]++
	}
	for _, n := range nBucket {
		if n >= 2 {
			x.Cnt.Inc("state.bucket_with_2plus_entries")
			break
		}
	}
	_ = sdk.Coin{}
	return c20Queries(x, ref)
}

func init() {
	register(&Property{
		ID:    "C20",
		Title: "Queries are exact views of delegations, unbondings and redelegations",
		Scenarios: func(tier string) []*engine.Scenario {
			ops := func(n *engine.Node) []world.Op {
				var ops []world.Op
				amt := "300"
				for _, v := range []int{0, 1, 2} {
					ops = append(ops, world.Op{K: world.KUndelegate, D: 0, V: v, Denom: "aaa", Amt: amt, Class: ClsUser})
				}
				ops = append(ops, world.Op{K: world.KUndelegate, D: 0, V: 0, Denom: "bbb", Amt: amt, Class: ClsUser})
				ops = append(ops, world.Op{K: world.KUndelegate, D: 1, V: 0, Denom: "aaa", Amt: amt, Class: ClsUser})
				for _, pr := range [][2]int{{0, 1}, {0, 2}, {1, 2}, {2, 0}} {
					ops = append(ops, world.Op{K: world.KRedelegate, D: 0, V: pr[0], V2: pr[1], Denom: "aaa", Amt: amt, Class: ClsUser})
				}
				ops = append(ops, world.Op{K: world.KRedelegate, D: 0, V: 0, V2: 1, Denom: "bbb", Amt: amt, Class: ClsUser})
				ops = append(ops, world.Op{K: world.KRedelegate, D: 1, V: 0, V2: 2, Denom: "aaa", Amt: amt, Class: ClsUser})
				for _, v := range []int{0, 1} {
					for _, f := range []string{"0.333333333333333333", "0.5"} {
						ops = append(ops, world.Op{K: world.KSlash, V: v, F: f, Class: ClsSlash})
					}
				}
				for _, dt := range dts(1, 3) {
					ops = append(ops, world.Op{K: world.KBlock, Dt: int64(dt), Class: ClsBlock})
				}
				// the chain may be restarted from a genesis export at any time: the queries must be exact views afterwards too
				// (their indexes are rebuilt by InitGenesis)
				if len(n.Snap().Unb)+len(n.Snap().Redels) > 0 {
					ops = append(ops, world.Op{K: world.KReimport, Class: ClsEnv})
				}
				if atBlockStart(n) && len(n.Trace) > 0 {
					ops = append(ops, world.Op{K: world.KReward, Denom: "stake", Amt: "1000003", Class: ClsEnv})
				}
				return ops
			}
			mk := func(name string, budgets []int, depth int) *engine.Scenario {
				return &engine.Scenario{
					Property: "C20", Name: name, Cfg: c07Config(), Stores: world.ModuleStores,
					Seeds: [][]world.Op{c07Seed}, ClassNames: classNames, Budgets: budgets, MaxDepth: depth,
					NewRef: func(w *world.World, root *engine.Node) engine.Ref { return newPendRef() },
					Ops:    ops, Step: c20Step, SeedStep: true,
					Required: []string{"query.unbondings.nonempty", "query.redelegations.followed_next_key", "state.bucket_with_2plus_entries", "state.after_slash", "probe.undelegate_balance", "query.binding.alliance", "query.binding.delegation", "state.after_genesis_reimport", "query.binding.rewards_nonzero"},
				}
			}
			// a validator that x/staking removes while alliance undelegations from it are still queued: V2 carries only a
			// warming-up asset (no module stake on it), its native delegator leaves, the alliance delegators leave later
			rcfg := world.DefaultConfig()
			rcfg.FullPipeline = true
			rcfg.Assets = []world.AssetCfg{
				{Denom: "aaa", Weight: "1", Min: "0", Max: "5", TakeRate: "0"},
				{Denom: "ccc", Weight: "2", Min: "0", Max: "5", TakeRate: "0", StartOffset: 12 * U},
			}
			rcfg.DelFunds["ccc"] = "1000000000000"
			removed := func(budgets []int, depth int) *engine.Scenario {
				return &engine.Scenario{
					Property: "C20", Name: "c20-validator-removed", Cfg: rcfg, Stores: world.AllStores,
					Seeds:      [][]world.Op{{opDel(0, 0, "aaa", "1000000"), opDel(0, 2, "ccc", "1000"), opDel(1, 2, "ccc", "500"), opBlock(1)}},
					ClassNames: classNames, Budgets: budgets, MaxDepth: depth,
					NewRef: func(w *world.World, root *engine.Node) engine.Ref { return newPendRef() },
					Ops: func(n *engine.Node) []world.Op {
						return []world.Op{
							{K: world.KUndelegate, D: 0, V: 2, Denom: "ccc", Amt: "300", Class: ClsUser},
							{K: world.KUndelegateAll, D: 1, V: 2, Denom: "ccc", Class: ClsUser},
							{K: world.KUndelegate, D: 0, V: 0, Denom: "aaa", Amt: "300", Class: ClsUser},
							{K: world.KNUndelegateAll, D: 99, V: 2, Class: ClsEnv},
							{K: world.KBlock, Dt: int64(U), Class: ClsBlock},
							{K: world.KBlock, Dt: int64(2 * U), Class: ClsBlock},
						}
					},
					Step: c20Step, SeedStep: true,
					Required: []string{"query.unbondings.nonempty", "state.validator_removed_from_staking", "state.pending_unbonding_from_removed_validator"},
				}
			}
			// 18-decimal magnitudes with share ratios that do not terminate (1/3, 2/3): the two pricing functions must agree
			mcfg := c07Config()
			magnitude := &engine.Scenario{
				Property: "C20", Name: "c20-magnitude", Cfg: mcfg, Stores: world.ModuleStores,
				Seeds:      [][]world.Op{{opDel(0, 0, "aaa", "1000000000000000000000"), opDel(1, 0, "aaa", "2000000000000000000000"), opDel(0, 1, "aaa", "7")}},
				ClassNames: classNames, Budgets: tierPick(tier, []int{2, 1, 0, 1, 0}, []int{3, 1, 0, 2, 0}), MaxDepth: tierPick(tier, 3, 5),
				NewRef: func(w *world.World, root *engine.Node) engine.Ref { return newPendRef() },
				Ops: func(n *engine.Node) []world.Op {
					return []world.Op{
						{K: world.KUndelegate, D: 0, V: 0, Denom: "aaa", Amt: "333333333333333333333", Class: ClsUser},
						{K: world.KDelegate, D: 1, V: 0, Denom: "aaa", Amt: "1", Class: ClsUser},
						{K: world.KRedelegate, D: 1, V: 0, V2: 1, Denom: "aaa", Amt: "1000000000000000000000", Class: ClsUser},
						{K: world.KSlash, V: 0, F: "0.333333333333333333", Class: ClsSlash},
						{K: world.KBlock, Dt: int64(U), Class: ClsBlock},
					}
				},
				Step: c20Step, SeedStep: true,
				Required: []string{"query.balance_vs_undelegate_pricing", "probe.undelegate_balance"},
			}
			// denoms that are suffix-related at the byte level: the unbonding index key ends with [len][denom][0][len][delegator],
			// and a 44-character denom has the length byte 45 = '-', so "fff-<denomA>" ends with the very bytes that announce denomA
			// (with IBC denoms, 68 characters, the byte is 'E' and a token-factory denom ".../Eibc/<hash>" collides the same way)
			denomA := "ibc/AAAAAAAAAABBBBBBBBBBCCCCCCCCCCDDDDDDDDDD"
			denomB := "fff-" + denomA
			scfg := world.DefaultConfig()
			scfg.Assets = []world.AssetCfg{{Denom: denomA, Weight: "1", Min: "0", Max: "5", TakeRate: "0"}, {Denom: denomB, Weight: "1", Min: "0", Max: "5", TakeRate: "0"}}
			scfg.DelFunds[denomA], scfg.DelFunds[denomB] = "1000000000000", "1000000000000"
			suffix := &engine.Scenario{
				Property: "C20", Name: "c20-suffix-related-denoms", Cfg: scfg, Stores: world.ModuleStores,
				Seeds:      [][]world.Op{{opDel(0, 0, denomA, "1000"), opDel(0, 0, denomB, "2000"), opDel(1, 0, denomB, "500"), opBlock(1)}},
				ClassNames: classNames, Budgets: tierPick(tier, []int{3, 1, 0, 2, 0}, []int{4, 1, 0, 3, 0}), MaxDepth: tierPick(tier, 5, 7),
				NewRef: func(w *world.World, root *engine.Node) engine.Ref { return newPendRef() },
				Ops: func(n *engine.Node) []world.Op {
					return []world.Op{
						{K: world.KUndelegate, D: 0, V: 0, Denom: denomA, Amt: "300", Class: ClsUser},
						{K: world.KUndelegate, D: 0, V: 0, Denom: denomB, Amt: "200", Class: ClsUser},
						{K: world.KUndelegate, D: 1, V: 0, Denom: denomB, Amt: "100", Class: ClsUser},
						{K: world.KSlash, V: 0, F: "0.5", Class: ClsSlash},
						{K: world.KBlock, Dt: int64(U), Class: ClsBlock}, {K: world.KBlock, Dt: int64(3 * U), Class: ClsBlock},
					}
				},
				Step: c20Step, SeedStep: true,
				Required: []string{"query.unbondings.nonempty", "state.bucket_with_2plus_entries"},
			}
			// a validator registered in x/staking under the upper-case spelling of its operator address (MsgCreateValidator keeps
			// the message text; bech32 is case-insensitive): V3 here. Every byte-keyed index agrees, every string comparison must too
			ucfg := c07Config()
			ucfg.UpperCaseValidator = true
			upper := &engine.Scenario{
				Property: "C20", Name: "c20-upper-case-operator", Cfg: ucfg, Stores: world.ModuleStores,
				Seeds:      [][]world.Op{{opDel(0, 3, "aaa", "1000"), opDel(0, 0, "aaa", "1000"), opDel(1, 3, "aaa", "500"), opBlock(1)}},
				ClassNames: classNames, Budgets: tierPick(tier, []int{3, 1, 0, 2, 0}, []int{4, 1, 0, 3, 0}), MaxDepth: tierPick(tier, 5, 7),
				NewRef: func(w *world.World, root *engine.Node) engine.Ref { return newPendRef() },
				Ops: func(n *engine.Node) []world.Op {
					return []world.Op{
						{K: world.KUndelegate, D: 0, V: 3, Denom: "aaa", Amt: "300", Class: ClsUser},
						{K: world.KUndelegate, D: 0, V: 0, Denom: "aaa", Amt: "200", Class: ClsUser},
						{K: world.KRedelegate, D: 1, V: 3, V2: 0, Denom: "aaa", Amt: "100", Class: ClsUser},
						{K: world.KSlash, V: 3, F: "0.5", Class: ClsSlash},
						{K: world.KBlock, Dt: int64(U), Class: ClsBlock}, {K: world.KBlock, Dt: int64(3 * U), Class: ClsBlock},
					}
				},
				Step: c20Step, SeedStep: true,
				Required: []string{"query.unbondings.nonempty", "state.after_slash"},
			}
			unionFull := unionFullScenario("C20", "c20-union-full-pipeline", tier, c20Step, func(w *world.World, root *engine.Node) engine.Ref { return newPendRef() }, tierPick(tier, 3, 5))
			unionFull.Required = []string{"query.unbondings.nonempty", "probe.undelegate_balance"}
			if tier == "thorough" {
				return []*engine.Scenario{magnitude, suffix, upper, unionFull, removed([]int{3, 0, 1, 5, 0}, 9), mk("c20-queries", []int{4, 1, 1, 2, 0}, 7)}
			}
			return []*engine.Scenario{magnitude, suffix, upper, unionFull, removed([]int{2, 0, 1, 4, 0}, 7), mk("c20-queries", []int{3, 1, 1, 2, 0}, 4)}
		},
		Assumptions: []string{
			"reference enumeration: the list-based model of pending unbondings/redelegations (the one C02/C07/C15 validate against the store) and a raw decode of the delegation records",
			"filters: delegators D0,D1 x validators V0..V2 x denoms aaa,bbb including empty combinations; redelegation and delegation queries with page limits none/1/2 following next_key",
		},
	})
}
