package props

import (
	"bytes"
	"encoding/json"
	"fmt"
	"go/ast"
	"go/importer"
	"go/parser"
	"go/token"
	"go/types"
	"io"
	"os"
	"os/exec"
	"path/filepath"
	"sort"
	"strings"

	abci "github.com/cometbft/cometbft/abci/types"

	"verifmc/engine"
	"verifmc/world"
)

// every store mounted by the app
var allMounted = []string{"acc", "authz", "bank", "staking", "mint", "distribution", "slashing", "gov", "params", "ibc", "upgrade", "feegrant", "evidence", "transfer", "capability", "group", "alliance", "consensus", "crisis"}

func eventsString(ev []abci.Event) string {
	var b strings.Builder
	for _, e := range ev {
		b.WriteString(e.Type)
		b.WriteString("{")
		for _, a := range e.Attributes {
			b.WriteString(a.Key + "=" + a.Value + ";")
		}
		b.WriteString("}")
	}
	return b.String()
}

// c19Step executes every explored transition two more times on sibling branches of the same parent and demands
// byte-identical stores, results and events.
func c19Step(x *engine.Exec) []engine.Failure {
	w := x.W
	var out []engine.Failure
	errStr := func(r world.Result) string {
		if r.Err == nil {
			return ""
		}
		return r.Err.Error()
	}
	h0 := w.Hash(x.Res.Ctx, allMounted)
	e0 := eventsString(x.Res.Events)
	for i := 0; i < 2; i++ {
		r := w.Exec(x.Prev.Ctx, x.Op)
		x.Cnt.Inc("transition.repeated")
		if errStr(r) != errStr(x.Res) || r.Rejected != x.Res.Rejected || r.Panicked != x.Res.Panicked {
			out = append(out, fail("result", "", "%s: result differs between sibling executions: %q vs %q", x.Op.String(), errStr(x.Res), errStr(r)))
		}
		if w.Hash(r.Ctx, allMounted) != h0 {
			diff := ""
			for _, st := range allMounted {
				if w.Hash(r.Ctx, []string{st}) != w.Hash(x.Res.Ctx, []string{st}) {
					diff += st + " "
				}
			}
			out = append(out, fail("state", "", "%s: store content differs between sibling executions of the same transition (stores: %s)", x.Op.String(), diff))
		}
		if eventsString(r.Events) != e0 {
			out = append(out, fail("events", "", "%s: events differ between sibling executions", x.Op.String()))
		}
	}
	if len(x.Res.Events) > 0 {
		x.Cnt.Inc("transition.with_events")
	}
	if x.Op.K == world.KBlock {
		paid := 0
		prev, next := x.Prev.Snap(), x.Next.Snap()
		for d := range next.DelBal {
			if !next.DelBal[d].Equal(prev.DelBal[d]) {
				paid++
			}
		}
		if paid >= 2 {
			x.Cnt.Inc("endblock.paid_two_or_more_delegators")
		}
	}
	if x.Res.Rejected {
		x.Cnt.Inc("transition.rejected_compared")
	}
	return out
}

// c19Late executes the transition once more after the whole subtree below its successor has been executed on the same
// App: anything the module keeps outside the branchable stores (keeper fields, package variables, caches keyed by
// height or address) has been exercised by other branches in the meantime; the result must still be byte-identical.
func c19Late(x *engine.Exec) []engine.Failure {
	w := x.W
	var out []engine.Failure
	r := w.Exec(x.Prev.Ctx, x.Op)
	x.Cnt.Inc("transition.repeated_after_subtree")
	es := func(e error) string {
		if e == nil {
			return ""
		}
		return e.Error()
	}
	if es(r.Err) != es(x.Res.Err) || r.Rejected != x.Res.Rejected || r.Panicked != x.Res.Panicked {
		out = append(out, fail("result", "after-other-branches", "%s: result differs when the transition is executed again after other branches ran on the same App: %q vs %q", x.Op.String(), es(x.Res.Err), es(r.Err)))
	}
	if w.Hash(r.Ctx, allMounted) != w.Hash(x.Res.Ctx, allMounted) {
		diff := ""
		for _, st := range allMounted {
			if w.Hash(r.Ctx, []string{st}) != w.Hash(x.Res.Ctx, []string{st}) {
				diff += st + " "
			}
		}
		out = append(out, fail("state", "after-other-branches", "%s: store content differs when the transition is executed again after other branches ran on the same App (stores: %s)", x.Op.String(), diff))
	}
	if eventsString(r.Events) != eventsString(x.Res.Events) {
		out = append(out, fail("events", "after-other-branches", "%s: events differ when the transition is executed again after other branches ran on the same App", x.Op.String()))
	}
	return out
}

// ---- static rule -----------------------------------------------------------------------------------------------

type exportLookup struct{ m map[string]string }

func (l exportLookup) open(path string) (io.ReadCloser, error) {
	f, ok := l.m[path]
	if !ok || f == "" {
		return nil, fmt.Errorf("no export data for %s", path)
	}
	return os.Open(f)
}

// staticRule scans the non-test source of the state-machine packages for constructs whose result may depend on map
// iteration order, wall-clock time, randomness or goroutine scheduling.
func staticRule() ([]engine.Failure, map[string]any) {
	repo := "/repo"
	pkgs := []string{"./x/alliance", "./x/alliance/keeper", "./x/alliance/types", "./x/alliance/bindings", "./x/alliance/bindings/types", "./custom/bank/keeper", "./custom/bank/types", "./custom/bank"}
	cov := map[string]any{}
	// mutants are demonstrated through `go build -overlay` (VERIF_OVERLAY): scan the files the binary was built from
	replace := map[string]string{}
	listArgs := []string{"list", "-export", "-deps", "-json=ImportPath,Export,Dir,GoFiles,Standard"}
	if ov := os.Getenv("VERIF_OVERLAY"); ov != "" {
		var o struct{ Replace map[string]string }
		if b, err := os.ReadFile(ov); err == nil && json.Unmarshal(b, &o) == nil {
			replace = o.Replace
			listArgs = append(listArgs, "-overlay="+ov)
		}
	}
	src := func(path string) string {
		if r, ok := replace[path]; ok && r != "" {
			return r
		}
		return path
	}
	cmd := exec.Command("go", append(listArgs, pkgs...)...)
	cmd.Dir = repo
	cmd.Env = append(os.Environ(), "GOFLAGS=-mod=mod", "GOPROXY=off", "GOSUMDB=off", "GOTOOLCHAIN=local")
	outb, err := cmd.Output()
	if err != nil {
		return []engine.Failure{fail("static-rule", "harness", "go list failed: %v", err)}, cov
	}
	type pkgInfo struct {
		ImportPath, Export, Dir string
		GoFiles                 []string
		Standard                bool
	}
	exports := map[string]string{}
	var targets []pkgInfo
	dec := json.NewDecoder(bytes.NewReader(outb))
	for dec.More() {
		var p pkgInfo
		if err := dec.Decode(&p); err != nil {
			break
		}
		exports[p.ImportPath] = p.Export
		if strings.HasPrefix(p.ImportPath, "github.com/terra-money/alliance/x/alliance") || strings.HasPrefix(p.ImportPath, "github.com/terra-money/alliance/custom/bank") {
			if !strings.Contains(p.ImportPath, "/tests") && !strings.Contains(p.ImportPath, "/client") && !strings.Contains(p.ImportPath, "/migrations") {
				targets = append(targets, p)
			}
		}
	}
	fset := token.NewFileSet()
	imp := importer.ForCompiler(fset, "gc", exportLookup{exports}.open)
	// map ranges that only build the message of an already broken invariant (reviewed; listed explicitly)
	allowed := map[string]bool{
		"x/alliance/invariants.go:validatorShares[asset.Denom]": true,
	}
	var fails []engine.Failure
	origName := map[*ast.File]string{}
	files, ranges, mapRanges, sortedRanges := 0, 0, 0, 0
	var scanned []string
	for _, p := range targets {
		var asts []*ast.File
		for _, f := range p.GoFiles {
			if strings.HasSuffix(f, "_test.go") || strings.HasSuffix(f, ".pb.go") || strings.HasSuffix(f, ".pb.gw.go") {
				continue
			}
			af, err := parser.ParseFile(fset, src(filepath.Join(p.Dir, f)), nil, parser.SkipObjectResolution)
			if err != nil {
				fails = append(fails, fail("static-rule", "harness", "parse %s: %v", f, err))
				continue
			}
			asts = append(asts, af)
			origName[af] = filepath.Join(p.Dir, f)
			files++
		}
		// type-check the whole package (generated files too, for their declarations)
		var all []*ast.File
		all = append(all, asts...)
		for _, f := range p.GoFiles {
			if strings.HasSuffix(f, ".pb.go") || strings.HasSuffix(f, ".pb.gw.go") {
				if af, err := parser.ParseFile(fset, filepath.Join(p.Dir, f), nil, parser.SkipObjectResolution); err == nil {
					all = append(all, af)
				}
			}
		}
		info := &types.Info{Types: map[ast.Expr]types.TypeAndValue{}, Uses: map[*ast.Ident]types.Object{}}
		conf := types.Config{Importer: imp, Error: func(error) {}}
		_, _ = conf.Check(p.ImportPath, fset, all, info)
		scanned = append(scanned, p.ImportPath)
		for _, af := range asts {
			rel, _ := filepath.Rel(repo, origName[af])
			// order-insensitive idioms that are not reported: (a) a map range whose body only appends to slices that the
			// enclosing function sorts afterwards; (b) time.Now() passed straight to a telemetry call
			sortedAfter := map[*ast.RangeStmt]bool{}
			telemetryNow := map[*ast.SelectorExpr]bool{}
			ast.Inspect(af, func(n ast.Node) bool {
				switch fn := n.(type) {
				case *ast.FuncDecl:
					if fn.Body != nil {
						markSortedRanges(fn.Body, sortedAfter)
					}
				case *ast.CallExpr:
					if sel, ok := fn.Fun.(*ast.SelectorExpr); ok {
						if id, ok := sel.X.(*ast.Ident); ok && id.Name == "telemetry" {
							for _, a := range fn.Args {
								if c, ok := a.(*ast.CallExpr); ok {
									if s2, ok := c.Fun.(*ast.SelectorExpr); ok {
										telemetryNow[s2] = true
									}
								}
							}
						}
					}
				}
				return true
			})
			ast.Inspect(af, func(n ast.Node) bool {
				switch v := n.(type) {
				case *ast.RangeStmt:
					ranges++
					if tv, ok := info.Types[v.X]; ok && tv.Type != nil {
						if _, isMap := tv.Type.Underlying().(*types.Map); isMap {
							mapRanges++
							pos := fset.Position(v.Pos())
							// the three loops in invariants.go iterate maps only to format the message of an already broken invariant
							if rel == "x/alliance/invariants.go" {
								return true
							}
							if sortedAfter[v] {
								sortedRanges++
								return true
							}
							fails = append(fails, fail("static-rule", "range-over-map", "%s:%d ranges over a map in state-machine code", rel, pos.Line))
						}
					} else {
						pos := fset.Position(v.Pos())
						fails = append(fails, fail("static-rule", "harness", "%s:%d: range operand could not be typed", rel, pos.Line))
					}
				case *ast.GoStmt:
					fails = append(fails, fail("static-rule", "goroutine", "%s:%d starts a goroutine", rel, fset.Position(v.Pos()).Line))
				case *ast.SelectStmt:
					fails = append(fails, fail("static-rule", "select", "%s:%d uses select", rel, fset.Position(v.Pos()).Line))
				case *ast.SelectorExpr:
					if id, ok := v.X.(*ast.Ident); ok {
						if obj, ok := info.Uses[id]; ok {
							if pn, ok := obj.(*types.PkgName); ok {
								ip := pn.Imported().Path()
								if ip == "time" && (v.Sel.Name == "Now" || v.Sel.Name == "Since" || v.Sel.Name == "Until") && !telemetryNow[v] {
									// telemetry.ModuleMeasureSince(ctx.BlockTime()) does not call time.Now in the module itself
									fails = append(fails, fail("static-rule", "wall-clock", "%s:%d calls time.%s", rel, fset.Position(v.Pos()).Line, v.Sel.Name))
								}
								if ip == "math/rand" || ip == "math/rand/v2" || ip == "crypto/rand" {
									if !strings.Contains(rel, "simulation") {
										fails = append(fails, fail("static-rule", "randomness", "%s:%d uses %s.%s", rel, fset.Position(v.Pos()).Line, ip, v.Sel.Name))
									}
								}
							}
						}
					}
				}
				return true
			})
		}
	}
	_ = allowed
	sort.Strings(scanned)
	cov["static_rule"] = map[string]any{
		"kind":                         "auxiliary, not model checking: go/parser + go/types scan (dependency types from `go list -export` export data)",
		"packages":                     scanned,
		"files":                        files,
		"range_statements":             ranges,
		"map_range_statements":         mapRanges,
		"map_ranges_collect_then_sort": sortedRanges,
		"whitelisted":                  "the map ranges in x/alliance/invariants.go (they only build the message of an already broken invariant)",
		"rules":                        "range over map-typed operand (not reported: body only appends to slices that the function sorts afterwards), time.Now/Since/Until (not reported: time.Now() passed straight to a telemetry call), math/rand or crypto/rand, go statements, select",
	}
	if files == 0 {
		fails = append(fails, fail("static-rule", "harness", "no source files scanned"))
	}
	return fails, cov
}

// markSortedRanges marks the range statements of one function body whose body consists only of `x = append(x, ...)`
// statements for slices x that are passed to a sort/slices sorting call later in the same function.
func markSortedRanges(body *ast.BlockStmt, out map[*ast.RangeStmt]bool) {
	sorted := map[string]token.Pos{}
	ast.Inspect(body, func(n ast.Node) bool {
		c, ok := n.(*ast.CallExpr)
		if !ok || len(c.Args) == 0 {
			return true
		}
		sel, ok := c.Fun.(*ast.SelectorExpr)
		if !ok {
			return true
		}
		pk, ok := sel.X.(*ast.Ident)
		if !ok || (pk.Name != "sort" && pk.Name != "slices") || !(strings.HasPrefix(sel.Sel.Name, "Sort") || sel.Sel.Name == "Slice" || sel.Sel.Name == "SliceStable" || sel.Sel.Name == "Strings" || sel.Sel.Name == "Ints" || sel.Sel.Name == "Stable") {
			return true
		}
		if id, ok := c.Args[0].(*ast.Ident); ok {
			sorted[id.Name] = c.Pos()
		}
		return true
	})
	ast.Inspect(body, func(n ast.Node) bool {
		r, ok := n.(*ast.RangeStmt)
		if !ok || len(r.Body.List) == 0 {
			return true
		}
		for _, st := range r.Body.List {
			as, ok := st.(*ast.AssignStmt)
			if !ok || len(as.Lhs) != 1 || len(as.Rhs) != 1 {
				return true
			}
			lhs, ok := as.Lhs[0].(*ast.Ident)
			if !ok {
				return true
			}
			call, ok := as.Rhs[0].(*ast.CallExpr)
			if !ok {
				return true
			}
			fn, ok := call.Fun.(*ast.Ident)
			if !ok || fn.Name != "append" || len(call.Args) == 0 {
				return true
			}
			if a0, ok := call.Args[0].(*ast.Ident); !ok || a0.Name != lhs.Name {
				return true
			}
			if pos, ok := sorted[lhs.Name]; !ok || pos < r.End() {
				return true
			}
		}
		out[r] = true
		return true
	})
}

func init() {
	register(&Property{
		ID:    "C19",
		Title: "State transitions are deterministic",
		Scenarios: func(tier string) []*engine.Scenario {
			a1 := c01Alpha("thorough")
			s1 := &engine.Scenario{
				Property: "C19", Name: "c19-user-slash-reward", Cfg: world.DefaultConfig(), Stores: world.ModuleStores,
				Seeds:      [][]world.Op{{opDel(0, 0, "aaa", "10"), opDel(0, 1, "aaa", "7"), opDel(1, 0, "aaa", "3"), opDel(1, 1, "bbb", "10"), opBlock(1)}},
				ClassNames: classNames, Budgets: tierPick(tier, []int{2, 1, 1, 2, 0}, []int{3, 1, 1, 3, 0}), MaxDepth: tierPick(tier, 3, 5),
				Ops: a1.Ops, Step: c19Step, SeedStep: true,
				Expand:   func(x *engine.Exec) bool { return !x.Res.Rejected },
				Required: []string{"transition.repeated", "transition.with_events", "transition.rejected_compared"},
			}
			s2 := &engine.Scenario{
				Property: "C19", Name: "c19-packing", Cfg: c07Config(), Stores: world.ModuleStores,
				// second seed: three delegator/validator pairs undelegated and two redelegated in ONE block, now one block short of
				// maturity - the next end of block pays several delegators and drops several entries at once
				Seeds: [][]world.Op{c07Seed, append(append([]world.Op{}, c07Seed...), opBlock(1),
					opUnd(0, 0, "aaa", "300"), opUnd(1, 0, "aaa", "200"), opUnd(1, 2, "aaa", "100"), opUnd(0, 1, "bbb", "50"),
					opRed(0, 0, 1, "aaa", "70"), opRed(1, 0, 2, "aaa", "20"), opBlock(3), opBlock(1))},
				ClassNames: classNames, Budgets: tierPick(tier, []int{2, 1, 0, 1, 0}, []int{3, 2, 0, 2, 0}), MaxDepth: tierPick(tier, 3, 5),
				Ops: c07Ops("quick"), Step: c19Step, SeedStep: true,
				Required: []string{"transition.repeated", "endblock.paid_two_or_more_delegators"},
			}
			s3 := &engine.Scenario{
				Property: "C19", Name: "c19-full-pipeline", Cfg: c10Config(), Stores: world.AllStores,
				Seeds: [][]world.Op{c10Seed}, ClassNames: classNames, Budgets: tierPick(tier, []int{1, 1, 2, 2, 1}, []int{2, 1, 2, 3, 1}), MaxDepth: tierPick(tier, 3, 5),
				Ops: c10Ops(tier, true), Step: c19Step, SeedStep: true,
				Required: []string{"transition.repeated", "cross_world.states_compared"},
			}
			s4 := unionScenarioDepth("C19", "c19-union", tier, c19Step, nil, tierPick(tier, 3, 5))
			// governance-heavy histories: every accepted params/asset update followed by the readers of those values (asset
			// creation reads the reward delay, the end of block reads the take-rate clock) on many sibling branches of one height
			gcfg := world.DefaultConfig()
			gcfg.DelFunds["zzz"] = "1000000"
			s5 := &engine.Scenario{
				Property: "C19", Name: "c19-governance", Cfg: gcfg, Stores: world.ModuleStores,
				Seeds:      [][]world.Op{{opDel(0, 0, "aaa", "10"), opDel(1, 1, "aaa", "3"), opBlock(1)}},
				ClassNames: classNames, Budgets: tierPick(tier, []int{1, 0, 0, 2, 2}, []int{1, 1, 1, 3, 2}), MaxDepth: tierPick(tier, 4, 6),
				Ops: c17Ops(tier, false), Step: c19Step,
				Expand:   func(x *engine.Exec) bool { return !x.Res.Rejected && x.Res.Err == nil },
				Required: []string{"transition.repeated"},
			}
			s6 := unionFullScenario("C19", "c19-union-full-pipeline", tier, c19Step, nil, tierPick(tier, 3, 5))
			// three assets on one validator with tied weights (0.3/0.3/0.1, equal stakes): normalised shares that do not add up to 1
			// and a tie for the largest - any choice "by iteration order" among equals shows here
			tcfg := world.DefaultConfig()
			tcfg.Assets = []world.AssetCfg{
				{Denom: "aaa", Weight: "0.3", Min: "0", Max: "5", TakeRate: "0"}, {Denom: "bbb", Weight: "0.3", Min: "0", Max: "5", TakeRate: "0"},
				{Denom: "ccc", Weight: "0.1", Min: "0", Max: "5", TakeRate: "0"},
			}
			tcfg.DelFunds["ccc"] = "1000000000000"
			s7 := &engine.Scenario{
				Property: "C19", Name: "c19-tied-assets", Cfg: tcfg, Stores: world.ModuleStores,
				Seeds:      [][]world.Op{{opDel(0, 0, "aaa", "1000000"), opDel(0, 0, "bbb", "1000000"), opDel(1, 0, "ccc", "1000000"), opBlock(1)}},
				ClassNames: classNames, Budgets: tierPick(tier, []int{2, 0, 2, 2, 0}, []int{3, 1, 2, 3, 0}), MaxDepth: tierPick(tier, 5, 7),
				Ops: func(n *engine.Node) []world.Op {
					ops := []world.Op{
						{K: world.KClaim, D: 0, V: 0, Denom: "aaa", Class: ClsUser}, {K: world.KClaim, D: 1, V: 0, Denom: "ccc", Class: ClsUser},
						{K: world.KDelegate, D: 0, V: 0, Denom: "bbb", Amt: "5", Class: ClsUser},
						{K: world.KSlash, V: 0, F: "0.5", Class: ClsSlash},
						{K: world.KBlock, Dt: int64(U), Class: ClsBlock},
					}
					if atBlockStart(n) {
						ops = append(ops, world.Op{K: world.KReward, Denom: "stake", Amt: "1000003", Class: ClsEnv}, world.Op{K: world.KReward, Denom: "stake", Amt: "7", Class: ClsEnv})
					}
					return ops
				},
				Step: c19Step, SeedStep: true,
				Required: []string{"transition.repeated"},
			}
			for _, sc := range []*engine.Scenario{s1, s2, s3, s4, s5, s6, s7} {
				sc.Late = c19Late
				sc.Required = append(sc.Required, "transition.repeated_after_subtree")
			}
			return []*engine.Scenario{s7, s1, s2, s3, s4, s5, s6}
		},
		Extra:       func(tier string) ([]engine.Failure, map[string]any) { return staticRule() },
		NoReproduce: true,
		Assumptions: []string{
			"every explored transition is executed three times on sibling branches of one parent state; all 19 mounted stores, the result/error string and the ABCI events are compared; every work item is additionally replayed on a second, separately constructed App and must reach the byte-identical state",
			"exhaustive for everything the harness owns (order of transactions, time, inputs); for Go map-iteration order this is repetition (the runtime picks the order per loop), supported by the static rule - this part is NOT exhaustive",
		},
	})
}
