package props

import (
	"fmt"

	"verifmc/engine"
	"verifmc/world"
)

// The "union" world: every feature of the module in one small world, used by the properties whose oracles do not depend
// on a particular configuration (custody, share ledger, liveness probes, end-of-block, determinism). It exists because
// several independently written breaking changes needed a feature that a property's own world lacked (a warm-up asset,
// a weight schedule, an asset deleted by governance, a chain restarted from an export, ...).
func unionConfig() world.Config {
	cfg := world.DefaultConfig()
	cfg.Assets = []world.AssetCfg{
		// take rate + decaying weight
		{Denom: "aaa", Weight: "1", Min: "0", Max: "5", TakeRate: "0.3", ChangeRate: "0.5", ChangeInterval: 2 * U},
		// weight schedule configured but pinned by its range
		{Denom: "bbb", Weight: "1", Min: "1", Max: "1", TakeRate: "0", ChangeRate: "0.5", ChangeInterval: 1 * U},
		// warming up until +4u, charged a take rate afterwards
		{Denom: "ccc", Weight: "2", Min: "0", Max: "5", TakeRate: "0.5", StartOffset: 4 * U},
	}
	cfg.DelFunds["ccc"] = "1000000000000"
	cfg.DelFunds["zzz"] = "1000000000000"
	cfg.ExtraDenoms = []string{"aaa", "bbb", "ccc", "zzz"}
	return cfg
}

var unionSeed = []world.Op{
	opDel(0, 0, "aaa", "10"), opDel(1, 1, "aaa", "7"), opDel(0, 0, "bbb", "5"), opDel(1, 0, "ccc", "9"), opDel(0, 1, "bbb", "3"),
	opBlock(1),
}

func unionOps(n *engine.Node) []world.Op {
	var ops []world.Op
	s := n.Snap()
	for _, p := range s.Pos {
		if p.D < 0 || p.D > 1 {
			continue
		}
		ops = append(ops, world.Op{K: world.KUndelegate, D: p.D, V: p.V, Denom: p.Denom, Amt: "2", Class: ClsUser})
		ops = append(ops, world.Op{K: world.KUndelegateAll, D: p.D, V: p.V, Denom: p.Denom, Class: ClsUser})
		ops = append(ops, world.Op{K: world.KRedelegate, D: p.D, V: p.V, V2: 1 - p.V, Denom: p.Denom, Amt: "2", Class: ClsUser})
		ops = append(ops, world.Op{K: world.KClaim, D: p.D, V: p.V, Denom: p.Denom, Class: ClsUser})
	}
	for _, den := range s.Denoms {
		ops = append(ops, world.Op{K: world.KDelegate, D: 1, V: 0, Denom: den, Amt: "4", Class: ClsUser})
	}
	for _, v := range []int{0, 1} {
		for _, f := range []string{"0.333333333333333333", "1"} {
			ops = append(ops, world.Op{K: world.KSlash, V: v, F: f, Class: ClsSlash})
		}
	}
	if atBlockStart(n) {
		ops = append(ops, world.Op{K: world.KReward, Denom: "stake", Amt: "1000", Class: ClsEnv})
		ops = append(ops, world.Op{K: world.KReward, Denom: "aaa", Amt: "1000", Class: ClsEnv})
	}
	if len(s.Unb)+len(s.Redels) > 0 {
		ops = append(ops, world.Op{K: world.KReimport, Class: ClsEnv})
	}
	for _, dt := range dts(1, 3) {
		ops = append(ops, world.Op{K: world.KBlock, Dt: int64(dt), Class: ClsBlock})
	}
	// governance
	if a, ok := s.Assets["aaa"]; ok {
		ops = append(ops, world.Op{K: world.KGovUpdate, Denom: "aaa", Class: ClsGov, Args: govArgs("authority", "0", a.RewardWeightRange.Min.String()+","+a.RewardWeightRange.Max.String(), "0", "1", int64(U), false)})
	}
	for _, den := range []string{"bbb", "ccc"} {
		if a, ok := s.Assets[den]; ok && a.TotalTokens.IsZero() {
			ops = append(ops, world.Op{K: world.KGovDelete, Denom: den, Class: ClsGov, Args: map[string]string{"signer": "authority"}})
		}
	}
	if _, ok := s.Assets["zzz"]; !ok {
		ops = append(ops, world.Op{K: world.KGovCreate, Denom: "zzz", Class: ClsGov, Args: govArgs("authority", "1", "0,5", "0.5", "2", int64(U), false)})
	}
	ops = append(ops, world.Op{K: world.KGovParams, Class: ClsGov, Args: map[string]string{"interval": fmt.Sprint(int64(U))}})
	return ops
}

// unionScenario builds the union scenario for one property with that property's own oracle.
func unionScenario(prop, name, tier string, step func(x *engine.Exec) []engine.Failure, newRef func(w *world.World, root *engine.Node) engine.Ref) *engine.Scenario {
	return unionScenarioDepth(prop, name, tier, step, newRef, tierPick(tier, 4, 7))
}

func unionScenarioDepth(prop, name, tier string, step func(x *engine.Exec) []engine.Failure, newRef func(w *world.World, root *engine.Node) engine.Ref, depth int) *engine.Scenario {
	return &engine.Scenario{
		Property: prop, Name: name, Cfg: unionConfig(), Stores: world.ModuleStores,
		Seeds: [][]world.Op{unionSeed}, ClassNames: classNames,
		Budgets: tierPick(tier, []int{2, 1, 1, 2, 1}, []int{3, 1, 2, 3, 2}), MaxDepth: depth,
		NewRef: newRef, Ops: unionOps, Step: step, SeedStep: true,
		Expand: func(x *engine.Exec) bool { return !x.Res.Rejected && !(x.Op.K == world.KBlock && x.Res.Err != nil) },
		Note:   "union world: take rate + decaying weight, pinned weight schedule, warm-up asset, asset deletion/creation, params change, reward inflow in two denoms, slashes incl. 100%, genesis reimport",
	}
}

// The full-pipeline union world: the union assets in a world that runs the whole ModuleManager.BeginBlock/EndBlock,
// where slashes arrive through x/staking, reward inflow is allocated by x/distribution at the next block start and
// validators can leave, re-enter and drop out of the active set. Several independently written breaking changes needed
// exactly that (a validator jailed without a slash, unbonding, removed by x/staking) under an oracle whose own world
// was module-only.
func unionFullConfig() world.Config {
	cfg := unionConfig()
	cfg.FullPipeline = true
	return cfg
}

func unionFullOps(n *engine.Node) []world.Op {
	ops := unionOps(n)
	var out []world.Op
	for _, o := range ops {
		if o.K == world.KReimport || (o.K == world.KReward && o.Denom != "stake") {
			continue
		}
		out = append(out, o)
	}
	out = append(out,
		world.Op{K: world.KJail, V: 0, Class: ClsEnv}, world.Op{K: world.KUnjail, V: 0, Class: ClsEnv},
		world.Op{K: world.KJail, V: 2, Class: ClsEnv}, world.Op{K: world.KUnjail, V: 2, Class: ClsEnv},
		world.Op{K: world.KNUndelegateAll, D: 99, V: 2, Class: ClsEnv},
		world.Op{K: world.KDelegate, D: 1, V: 2, Denom: "ccc", Amt: "4", Class: ClsUser},
	)
	return out
}

// unionFullScenario builds the full-pipeline union scenario for one property with that property's own oracle.
func unionFullScenario(prop, name, tier string, step func(x *engine.Exec) []engine.Failure, newRef func(w *world.World, root *engine.Node) engine.Ref, depth int) *engine.Scenario {
	return &engine.Scenario{
		Property: prop, Name: name, Cfg: unionFullConfig(), Stores: world.AllStores,
		Seeds: [][]world.Op{unionSeed}, ClassNames: classNames,
		Budgets: tierPick(tier, []int{2, 1, 2, 3, 1}, []int{3, 1, 3, 4, 1}), MaxDepth: depth,
		NewRef: newRef, Ops: unionFullOps, Step: step, SeedStep: true,
		Expand: func(x *engine.Exec) bool { return !x.Res.Rejected && !(x.Op.K == world.KBlock && x.Res.Err != nil) },
		Note:   "full-pipeline union world: the union assets under the whole BeginBlock/EndBlock, slashes through x/staking, validators jailed/unjailed/leaving the set, a validator that x/staking can remove",
	}
}
