package props

import (
	"fmt"
	"strings"

	"cosmossdk.io/math"

	"verifmc/engine"
	"verifmc/world"
)

// giftRef tracks coins third parties sent to the custody account unsolicited.
type giftRef struct{ gift map[string]math.Int }

func (g *giftRef) Clone() engine.Ref {
	n := &giftRef{gift: map[string]math.Int{}}
	for k, v := range g.gift {
		n.gift[k] = v
	}
	return n
}
func (g *giftRef) Digest() []byte {
	var b strings.Builder
	for _, k := range sortedKeys(g.gift) {
		fmt.Fprintf(&b, "%s=%s;", k, g.gift[k])
	}
	return []byte(b.String())
}

// custodyCheck is the C01 oracle on one state.
func custodyCheck(s *world.Snap, gift map[string]math.Int) []engine.Failure {
	var out []engine.Failure
	unb := s.UnbTotal()
	seen := map[string]bool{}
	for _, den := range s.Denoms {
		seen[den] = true
		a := s.Assets[den]
		u, ok := unb[den]
		if !ok {
			u = math.ZeroInt()
		}
		g, ok := gift[den]
		if !ok {
			g = math.ZeroInt()
		}
		bal := s.Custody.AmountOf(den)
		want := a.TotalTokens.Add(u).Add(g)
		if !bal.Equal(want) {
			cause := "custody-short"
			if bal.GT(want) {
				cause = "custody-surplus"
			}
			out = append(out, fail("custody", cause, "denom %s: custody=%s != staked total %s + pending unbondings %s + gifts %s (diff %s)", den, bal, a.TotalTokens, u, g, bal.Sub(want)))
		}
	}
	for den, u := range unb {
		if seen[den] {
			continue
		}
		g, ok := gift[den]
		if !ok {
			g = math.ZeroInt()
		}
		bal := s.Custody.AmountOf(den)
		if !bal.Equal(u.Add(g)) {
			out = append(out, fail("custody", "custody-deleted-asset", "denom %s (no asset record): custody=%s != pending unbondings %s + gifts %s", den, bal, u, g))
		}
	}
	return out
}

func c01Step(x *engine.Exec) []engine.Failure {
	ref := x.Next.Ref.(*giftRef)
	if x.Op.K == world.KGift {
		cur, ok := ref.gift[x.Op.Denom]
		if !ok {
			cur = math.ZeroInt()
		}
		ref.gift[x.Op.Denom] = cur.Add(mi(x.Op.Amt))
	}
	if x.Res.Rejected {
		return nil
	}
	var out []engine.Failure
	if x.Res.Err != nil {
		// slash callback / end-of-block errors are C08 / C17's business; the state is still checked
		x.Cnt.Inc("nonTx.error." + x.Op.K)
	}
	s := x.Next.Snap()
	out = append(out, custodyCheck(s, ref.gift)...)
	if len(s.Unb) > 0 {
		x.Cnt.Inc("states.with_pending_unbondings")
	}
	if x.Op.K == world.KSlash && len(x.Prev.Snap().Unb) > 0 {
		x.Cnt.Inc("slash.with_pending_unbondings")
	}
	if x.Op.K == world.KBlock && !x.Prev.Snap().Fee.Equal(s.Fee) {
		x.Cnt.Inc("block.take_rate_or_fee_movement")
	}
	if x.Op.K == world.KBlock && len(x.Prev.Snap().Unb) > len(s.Unb) {
		x.Cnt.Inc("block.paid_unbonding")
	}
	return out
}

func c01Alpha(tier string) Alpha {
	return Alpha{
		Dels: []int{0, 1}, Vals: []int{0, 1}, Denoms: tierPick(tier, []string{"aaa"}, []string{"aaa", "bbb"}),
		DelAmts: []string{"3", "10"}, UndAmts: []string{"1", "7"}, UndAll: true,
		RedAmts: []string{"2"}, RedAll: tierPick(tier, false, true), Claim: true,
		SlashVals: []int{0, 1}, SlashF: []string{"0.333333333333333333", "1"},
		BlockDts: dts(1, 3),
		Rewards: []world.Op{
			{K: world.KReward, Denom: "stake", Amt: "1000"},
			{K: world.KReward, Denom: "aaa", Amt: "1000"},
			{K: world.KGift, Denom: "aaa", Amt: "5"},
		},
	}
}

func init() {
	register(&Property{
		ID:    "C01",
		Title: "Custody = staked total + pending unbondings",
		Scenarios: func(tier string) []*engine.Scenario {
			al := c01Alpha(tier)
			mk := func(name string, seeds [][]world.Op, budgets []int, depth int) *engine.Scenario {
				return &engine.Scenario{
					Property: "C01", Name: name, Cfg: world.DefaultConfig(),
					Stores: world.ModuleStores, Seeds: seeds, ClassNames: classNames, Budgets: budgets, MaxDepth: depth,
					NewRef: func(w *world.World, root *engine.Node) engine.Ref { return &giftRef{gift: map[string]math.Int{}} },
					Ops:    al.Ops, Step: c01Step, SeedStep: true,
					Expand:   func(x *engine.Exec) bool { return !x.Res.Rejected },
					Required: []string{"states.with_pending_unbondings", "slash.with_pending_unbondings", "block.paid_unbonding", "block.take_rate_or_fee_movement"},
				}
			}
			staked := []world.Op{
				opDel(0, 0, "aaa", "10"), opDel(0, 1, "aaa", "7"), opDel(1, 0, "aaa", "3"), opDel(1, 1, "bbb", "10"),
				opBlock(1), opReward("stake", "1000"), opUnd(0, 0, "aaa", "3"), opRed(0, 1, 0, "aaa", "2"), opBlock(1),
			}
			if tier == "thorough" {
				return []*engine.Scenario{
					mk("c01-empty", [][]world.Op{nil}, []int{6, 2, 2, 4, 0}, 9),
					mk("c01-staked", [][]world.Op{staked}, []int{5, 2, 2, 4, 0}, 8),
					unionScenario("C01", "c01-union", tier, c01Step, func(w *world.World, root *engine.Node) engine.Ref { return &giftRef{gift: map[string]math.Int{}} }),
					unionFullScenario("C01", "c01-union-full-pipeline", tier, c01Step, func(w *world.World, root *engine.Node) engine.Ref { return &giftRef{gift: map[string]math.Int{}} }, 7),
				}
			}
			union := unionScenario("C01", "c01-union", tier, c01Step, func(w *world.World, root *engine.Node) engine.Ref { return &giftRef{gift: map[string]math.Int{}} })
			return []*engine.Scenario{
				mk("c01-empty", [][]world.Op{nil}, []int{4, 1, 1, 3, 0}, 5),
				mk("c01-staked", [][]world.Op{staked}, []int{3, 1, 1, 3, 0}, 4),
				union,
				unionFullScenario("C01", "c01-union-full-pipeline", tier, c01Step, func(w *world.World, root *engine.Node) engine.Ref { return &giftRef{gift: map[string]math.Int{}} }, 3),
			}
		},
		Assumptions: []string{
			"amounts from the small menu {1,2,3,7,10} (DESIGN §3); take rate 0.3 on aaa, 0 on bbb; slash fractions 1/3 and 1",
			"third-party transfers are modelled by keeper-level bank sends from an outsider account",
			"module-only block boundary (alliance.EndBlocker with the real staking/bank/distribution keepers underneath)",
		},
	})
}
