package props

import (
	"fmt"
	"math/big"

	"cosmossdk.io/math"
	sdk "github.com/cosmos/cosmos-sdk/types"
	authtypes "github.com/cosmos/cosmos-sdk/x/auth/types"
	banktypes "github.com/cosmos/cosmos-sdk/x/bank/types"

	"verifmc/engine"
	"verifmc/world"
)

// stakeSnap is the staking-side view the voting-power properties talk about.
type stakeSnap struct {
	Bonded      []bool
	Jailed      []bool
	Tokens      []*big.Rat // validator tokens
	Shares      []*big.Rat // validator delegator shares
	ModShares   []*big.Rat // alliance module's delegation shares
	ModTokens   []*big.Rat // exact tokens of the module delegation
	TotalBonded math.Int
	Supply      math.Int
	ModuleBal   math.Int // bond-denom balance of the alliance module account
	PoolBal     math.Int // bond-denom balance of the rewards pool
	GenBal      math.Int
	DistrBal    math.Int // bond-denom balance of the x/distribution module account
}

func takeStakeSnap(w *world.World, ctx sdk.Context) *stakeSnap {
	s := &stakeSnap{}
	for _, va := range w.Vals {
		v, err := w.App.StakingKeeper.GetValidator(ctx, va)
		if err != nil {
			s.Bonded = append(s.Bonded, false)
			s.Jailed = append(s.Jailed, false)
			s.Tokens = append(s.Tokens, new(big.Rat))
			s.Shares = append(s.Shares, new(big.Rat))
			s.ModShares = append(s.ModShares, new(big.Rat))
			s.ModTokens = append(s.ModTokens, new(big.Rat))
			continue
		}
		s.Bonded = append(s.Bonded, v.IsBonded())
		s.Jailed = append(s.Jailed, v.Jailed)
		s.Tokens = append(s.Tokens, world.RatInt(v.Tokens))
		s.Shares = append(s.Shares, world.Rat(v.DelegatorShares))
		ms, mt := new(big.Rat), new(big.Rat)
		if d, err := w.App.StakingKeeper.GetDelegation(ctx, w.ModAddr, va); err == nil {
			ms = world.Rat(d.Shares)
			if v.DelegatorShares.IsPositive() {
				mt = ratQuo(ratMul(ms, world.RatInt(v.Tokens)), world.Rat(v.DelegatorShares))
			}
		}
		s.ModShares = append(s.ModShares, ms)
		s.ModTokens = append(s.ModTokens, mt)
	}
	tb, err := w.App.StakingKeeper.TotalBondedTokens(ctx)
	if err != nil {
		panic(err)
	}
	s.TotalBonded = tb
	s.Supply = w.App.BankKeeper.GetSupply(ctx, "stake").Amount
	s.ModuleBal = w.App.BankKeeper.GetBalance(ctx, w.ModAddr, "stake").Amount
	s.PoolBal = w.App.BankKeeper.GetBalance(ctx, w.PoolAddr, "stake").Amount
	s.GenBal = w.App.BankKeeper.GetBalance(ctx, w.Gen, "stake").Amount
	s.DistrBal = w.App.BankKeeper.GetBalance(ctx, authtypes.NewModuleAddress("distribution"), "stake").Amount
	return s
}

func nodeStake(n *engine.Node) *stakeSnap {
	if n.Aux == nil {
		n.Aux = map[string]any{}
	}
	if s, ok := n.Aux["stake"]; ok {
		return s.(*stakeSnap)
	}
	s := takeStakeSnap(n.W, n.Ctx)
	n.Aux["stake"] = s
	return s
}

// c10Check: after a full EndBlock every bonded validator carries the target amount of alliance-minted stake.
func c10Check(x *engine.Exec) []engine.Failure {
	var out []engine.Failure
	s := x.Next.Snap()
	st := nodeStake(x.Next)
	pst := nodeStake(x.Prev)
	// native bonded stake as the system defines it: total bonded minus the (truncated) alliance-bonded amount
	allianceSum := new(big.Rat)
	rateNot1 := false
	withMod := 0
	for v := range st.Bonded {
		if st.Bonded[v] {
			allianceSum.Add(allianceSum, st.ModTokens[v])
			if st.ModShares[v].Sign() > 0 {
				withMod++
			}
		}
		if st.Shares[v].Sign() > 0 && st.Tokens[v].Cmp(st.Shares[v]) != 0 {
			rateNot1 = true
		}
	}
	alliance := math.NewIntFromBigInt(world.Floor(allianceSum))
	N := world.RatInt(st.TotalBonded.Sub(alliance))
	tolerance := ratI(2)
	sumW := new(big.Rat)
	started := []string{}
	for _, den := range s.Denoms {
		a := s.Assets[den]
		// the EndBlocker ran at the pre-state's block time (the header advances afterwards)
		if x.Prev.Snap().Time.Before(a.RewardStartTime) {
			if a.TotalTokens.IsPositive() {
				x.Cnt.Inc("block.with_staked_warmup_asset")
			}
			continue
		}
		started = append(started, den)
		sumW.Add(sumW, world.Rat(a.RewardWeight))
	}
	if rateNot1 {
		x.Cnt.Inc("block.with_exchange_rate_not_1")
		tolerance = ratAdd(tolerance, ratMul(sumW, ratI(int64(withMod)+1)))
	}
	total := new(big.Rat)
	totalWant := new(big.Rat)
	for _, den := range started {
		a := s.Assets[den]
		bondedShares := new(big.Rat)
		for v := range st.Bonded {
			if st.Bonded[v] {
				if sh := s.Vals[v].ValShares[den]; sh != nil {
					bondedShares.Add(bondedShares, sh)
				}
			}
		}
		if bondedShares.Sign() > 0 {
			totalWant.Add(totalWant, ratMul(world.Rat(a.RewardWeight), N))
		}
	}
	nBonded := 0
	for v := range st.Bonded {
		if !st.Bonded[v] {
			// unbonded / jailed validators are neither counted nor adjusted
			if !pst.Bonded[v] && st.ModShares[v].Cmp(pst.ModShares[v]) != 0 {
				out = append(out, fail("non-bonded-untouched", "", "module delegation shares on non-bonded v%d changed %s -> %s during the block", v, world.RatF(pst.ModShares[v]), world.RatF(st.ModShares[v])))
			}
			x.Cnt.Inc("block.with_non_bonded_validator")
			continue
		}
		nBonded++
		want := new(big.Rat)
		for _, den := range started {
			a := s.Assets[den]
			sv := s.Vals[v].ValShares[den]
			if sv == nil || sv.Sign() <= 0 {
				continue
			}
			bondedShares := new(big.Rat)
			for u := range st.Bonded {
				if st.Bonded[u] {
					if sh := s.Vals[u].ValShares[den]; sh != nil {
						bondedShares.Add(bondedShares, sh)
					}
				}
			}
			if bondedShares.Sign() <= 0 {
				continue
			}
			want.Add(want, ratMul(ratMul(world.Rat(a.RewardWeight), N), ratQuo(sv, bondedShares)))
		}
		got := st.ModTokens[v]
		total.Add(total, got)
		if absRat(ratSub(got, want)).Cmp(tolerance) > 0 {
			out = append(out, fail("target", c10Classify(x), "after %s: bonded v%d carries %s alliance-minted stake, target %s (native bonded %s, tolerance %s)", x.Op.String(), v, world.RatF(got), world.RatF(want), world.RatF(N), world.RatF(tolerance)))
		}
	}
	tolTotal := ratMul(tolerance, ratI(int64(nBonded)+1))
	if absRat(ratSub(total, totalWant)).Cmp(tolTotal) > 0 {
		out = append(out, fail("total", c10Classify(x), "after %s: total alliance-minted stake on bonded validators %s, expected sum of weight x native bonded = %s", x.Op.String(), world.RatF(total), world.RatF(totalWant)))
	}
	if totalWant.Sign() > 0 {
		x.Cnt.Inc("block.with_positive_target")
	}
	return out
}

// c10Classify: the known missed trigger - a native delegator removed a whole delegation since the last rebalance.
func c10Classify(x *engine.Exec) string {
	// a validator that x/staking removed (no delegator shares left after unbonding) while alliance delegators were still
	// staked on it: AfterValidatorRemoved deletes its alliance record, its validator shares stay in the asset total
	s := x.Next.Snap()
	for _, p := range s.Pos {
		if p.V >= 0 && !s.Vals[p.V].Present {
			return "validator-removed-while-alliance-stake-on-it"
		}
	}
	for i := len(x.Next.Trace) - 1; i >= 0; i-- {
		op := x.Next.Trace[i]
		switch op.K {
		case world.KNUndelegateAll, world.KNRedelegateAll:
			return "native-delegation-removed-completely"
		case world.KBlock:
			if i < len(x.Next.Trace)-1 {
				// an earlier block: only quiet blocks may lie between the missed trigger and now
				continue
			}
		case world.KNDelegate, world.KNUndelegate, world.KDelegate, world.KUndelegate, world.KUndelegateAll, world.KRedelegate, world.KRedelegateAll, world.KSlash, world.KJail, world.KUnjail, world.KMaxVals, world.KGovUpdate, world.KGovCreate:
			return ""
		}
	}
	return ""
}

func c10Step(x *engine.Exec) []engine.Failure {
	if x.Res.Rejected {
		return nil
	}
	switch x.Op.K {
	case world.KBlock:
		if x.Res.Err != nil {
			return []engine.Failure{fail("endblock", "error", "block failed: %v", x.Res.Err)}
		}
		quiet := len(x.Prev.Trace) > 0 && x.Prev.Trace[len(x.Prev.Trace)-1].K == world.KBlock
		if quiet {
			x.Cnt.Inc("block.quiet")
		}
		for _, den := range x.Prev.Snap().Denoms {
			if !x.Prev.Snap().Assets[den].RewardWeight.Equal(x.Next.Snap().Assets[den].RewardWeight) {
				x.Cnt.Inc("block.with_scheduled_weight_change")
			}
		}
		return c10Check(x)
	case world.KNUndelegateAll, world.KNRedelegateAll:
		x.Cnt.Inc("native.full_exit")
	case world.KSlash:
		x.Cnt.Inc("real_slash")
	case world.KJail:
		x.Cnt.Inc("jail")
	case world.KMaxVals:
		x.Cnt.Inc("max_validators_changed")
	}
	return nil
}

func c10Config() world.Config {
	cfg := world.DefaultConfig()
	cfg.FullPipeline = true
	cfg.Assets = []world.AssetCfg{
		// aaa has a weight schedule (x0.5 every 4u): scheduled weight changes must be followed by voting power too
		{Denom: "aaa", Weight: "1", Min: "0", Max: "5", TakeRate: "0", ChangeRate: "0.5", ChangeInterval: 4 * U},
		{Denom: "bbb", Weight: "0.5", Min: "0", Max: "5", TakeRate: "0"},
		{Denom: "ccc", Weight: "2", Min: "0", Max: "5", TakeRate: "0", StartOffset: 4 * U},
		// a denom of another length: a validator's share list is sorted by denom (aaa, aaaa, bbb), the asset store by length
		// first (aaa, bbb, ccc, aaaa)
		{Denom: "aaaa", Weight: "0.3", Min: "0", Max: "5", TakeRate: "0"},
	}
	cfg.DelFunds["ccc"] = "1000000000000"
	cfg.DelFunds["aaaa"] = "1000000000000"
	return cfg
}

var c10Seed = []world.Op{
	{K: world.KNDelegate, D: 99, V: 1, Amt: "500000"}, // uneven native stake
	opDel(0, 0, "aaa", "1000000"), opDel(1, 1, "aaa", "500000"), opDel(1, 0, "bbb", "1000000"), opDel(2, 1, "ccc", "1000000"),
	opDel(2, 0, "aaaa", "700000"),
	opBlock(1),
}

// c10LateSeed: the warm-up asset has started (while an asset warms up the module re-queues a rebalance in every block,
// which hides a missed trigger) and V2 - native stake only - sits jailed outside the active set.
func c10LateSeed() []world.Op {
	return append(append([]world.Op{}, c10Seed...), opBlock(3), opBlock(1), world.Op{K: world.KJail, V: 2}, opBlock(1))
}

// c10MagnitudeSeed: an 18-decimal asset (1000 and 2700 whole tokens = 1e21 base units and as many shares) next to
// ordinary 6-decimal native stake: any per-share quantity of the target computation is multiplied by ~1e21.
var c10MagnitudeSeed = []world.Op{
	{K: world.KNDelegate, D: 99, V: 1, Amt: "500000"},
	opDel(0, 0, "aaa", "1000000000000000000000"), opDel(1, 1, "aaa", "2700000000000000000000"), opDel(1, 0, "bbb", "1000000"),
	opBlock(1),
}

func c10Ops(tier string, withRewards bool) func(n *engine.Node) []world.Op {
	return func(n *engine.Node) []world.Op {
		var ops []world.Op
		ops = append(ops,
			world.Op{K: world.KDelegate, D: 0, V: 2, Denom: "aaa", Amt: "250000", Class: ClsUser},
			world.Op{K: world.KUndelegate, D: 0, V: 0, Denom: "aaa", Amt: "400000", Class: ClsUser},
			world.Op{K: world.KRedelegate, D: 1, V: 1, V2: 0, Denom: "aaa", Amt: "300000", Class: ClsUser},
			world.Op{K: world.KUndelegateAll, D: 1, V: 0, Denom: "bbb", Class: ClsUser},
		)
		ops = append(ops,
			world.Op{K: world.KNDelegate, D: 99, V: 2, Amt: "700000", Class: ClsEnv},
			world.Op{K: world.KNUndelegate, D: 99, V: 0, Amt: "300000", Class: ClsEnv},
			world.Op{K: world.KNUndelegateAll, D: 99, V: 2, Class: ClsEnv},
			world.Op{K: world.KNRedelegateAll, D: 99, V: 1, V2: 2, Class: ClsEnv},
			world.Op{K: world.KJail, V: 0, Class: ClsEnv},
			world.Op{K: world.KUnjail, V: 0, Class: ClsEnv},
			// V2 carries native stake only (unless somebody delegates to it): its leaving and re-entering the active set
			// changes the total bonded amount every other validator's target is computed from
			world.Op{K: world.KJail, V: 2, Class: ClsEnv},
			world.Op{K: world.KUnjail, V: 2, Class: ClsEnv},
			world.Op{K: world.KMaxVals, Amt: "2", Class: ClsEnv},
			world.Op{K: world.KMaxVals, Amt: "3", Class: ClsEnv},
		)
		for _, f := range []string{"0.05", "0.5"} {
			ops = append(ops, world.Op{K: world.KSlash, V: 1, F: f, Class: ClsSlash})
		}
		a := n.Snap().Assets["aaa"]
		ops = append(ops, world.Op{K: world.KGovUpdate, Denom: "aaa", Class: ClsGov, Args: govArgs("authority", "2", "0,5", "0", a.RewardChangeRate.String(), 0, false)})
		ops = append(ops, world.Op{K: world.KGovUpdate, Denom: "bbb", Class: ClsGov, Args: govArgs("authority", "0", "0,5", "0", "1", 0, false)})
		if withRewards {
			if atBlockStart(n) {
				ops = append(ops, world.Op{K: world.KReward, Denom: "stake", Amt: "1000003", Class: ClsEnv})
			}
			for _, p := range n.Snap().Pos {
				if p.D >= 0 && p.D < 2 {
					ops = append(ops, world.Op{K: world.KClaim, D: p.D, V: p.V, Denom: p.Denom, Class: ClsUser})
				}
			}
		}
		ops = append(ops, world.Op{K: world.KBlock, Dt: int64(U), Class: ClsBlock})
		ops = append(ops, world.Op{K: world.KBlock, Dt: int64(3 * U), Class: ClsBlock})
		return ops
	}
}

func init() {
	register(&Property{
		ID:    "C10",
		Title: "Voting power: each bonded validator's alliance stake is rebalanced to target",
		Scenarios: func(tier string) []*engine.Scenario {
			mk := func(name string, budgets []int, depth int) *engine.Scenario {
				return &engine.Scenario{
					Property: "C10", Name: name, Cfg: c10Config(), Stores: world.AllStores,
					Seeds: [][]world.Op{c10Seed, c10LateSeed(), c10MagnitudeSeed}, ClassNames: classNames, Budgets: budgets, MaxDepth: depth,
					Ops: c10Ops(tier, false), Step: c10Step, SeedStep: true,
					Required: []string{"block.quiet", "block.with_positive_target", "block.with_non_bonded_validator", "block.with_exchange_rate_not_1", "block.with_staked_warmup_asset", "native.full_exit", "real_slash", "jail", "max_validators_changed", "block.with_scheduled_weight_change"},
				}
			}
			if tier == "thorough" {
				return []*engine.Scenario{mk("c10-voting-power", []int{2, 1, 3, 4, 1}, 8)}
			}
			return []*engine.Scenario{mk("c10-voting-power", []int{2, 1, 2, 3, 1}, 5)}
		},
		Assumptions: []string{
			"full-pipeline world: ModuleManager.EndBlock/BeginBlock with harness-built VoteInfos, real StakingKeeper.Slash, real x/staking msg server for native delegations, Jail/Unjail through the staking keeper, MaxValidators through staking params",
			"target recomputed from the post-state: native bonded = total bonded - sum over bonded validators of truncated module tokens; tolerance 2 base units, widened by (sum of weights) x (#bonded validators with module stake + 1) when some validator's exchange rate differs from 1 (truncation inside GetAllianceBondedAmount)",
			fmt.Sprintf("assets: aaa w=1 decaying x0.5 every %s, bbb w=0.5, ccc w=2 warming up until +%s", 4*U, 4*U),
		},
	})
	_ = banktypes.ModuleName
}
