package props

import (
	"math/big"
	"time"

	"verifmc/engine"
	"verifmc/world"
)

func coinDelta(prev, next *world.Snap, d int, denom string) *big.Int {
	a := next.DelBal[d].AmountOf(denom).BigInt()
	b := prev.DelBal[d].AmountOf(denom).BigInt()
	return new(big.Int).Sub(a, b)
}

// c02Step: unbonding payout exactly once, exact amount, never early; nothing left behind.
func c02Step(x *engine.Exec) []engine.Failure {
	ref := x.Next.Ref.(*pendRef)
	if x.Res.Rejected {
		return nil
	}
	prev, next := x.Prev.Snap(), x.Next.Snap()
	var out []engine.Failure
	expect := map[int]map[string]*big.Int{} // expected balance deltas in asset denoms
	set := func(d int, denom string, v *big.Int) {
		if expect[d] == nil {
			expect[d] = map[string]*big.Int{}
		}
		expect[d][denom] = v
	}
	switch x.Op.K {
	case world.KUndelegate, world.KUndelegateAll:
		ref.onUndelegate(x)
		x.Cnt.Inc("undelegations")
		// several entries of one delegator with the same completion time share a bucket
		n := 0
		for _, u := range ref.Unb {
			if u.D == x.Op.D && u.C == prev.Time.Add(prev.UnbondingTime).UnixNano() {
				n++
			}
		}
		if n >= 2 {
			x.Cnt.Inc("bucket.with_2plus_entries")
		}
	case world.KDelegate:
		set(x.Op.D, x.Op.Denom, new(big.Int).Neg(x.Res.Amount.BigInt()))
	case world.KReimport:
		if x.Res.Err != nil {
			out = append(out, fail("restart", "error", "genesis export/import failed: %v", x.Res.Err))
		}
		x.Cnt.Inc("restart.with_pending_entries")
	case world.KSlash:
		_, hit := ref.onSlash(x.Op.V, world.Rat(x.Res.EffFrac), prev.Time)
		if hit > 0 {
			x.Cnt.Inc("slash.hit_pending_entry")
			if x.Prev.Used[ClsEnv] > 0 {
				x.Cnt.Inc("slash.hit_pending_entry_after_restart")
			}
		}
		if x.Res.Err != nil {
			x.Cnt.Inc("slash.callback_error")
			defer ref.resyncUnb(next)
		}
	case world.KBlock:
		if x.Res.Err != nil {
			out = append(out, fail("endblock", "error", "EndBlocker failed: %v", x.Res.Err))
		}
		for _, u := range ref.Unb {
			if u.Amt.Sign() == 0 && u.C < prev.Time.UnixNano() {
				x.Cnt.Inc("endblock.settled_entry_slashed_to_zero")
			}
		}
		pay, nPaid, nBoundary := ref.onEndBlock(prev.Time)
		if nPaid > 0 {
			x.Cnt.Add("payouts", int64(nPaid))
		}
		if nBoundary > 0 {
			x.Cnt.Inc("endblock.entry_exactly_at_completion_instant")
		}
		for d, m := range pay {
			for den, v := range m {
				set(d, den, v)
			}
		}
	}
	// bank deltas of every delegator in every asset denom (and denoms of pending entries)
	denoms := map[string]bool{}
	for _, den := range prev.Denoms {
		denoms[den] = true
	}
	for _, u := range prev.Unb {
		denoms[u.Denom] = true
	}
	for d := range next.DelBal {
		for den := range denoms {
			want := new(big.Int)
			if expect[d] != nil && expect[d][den] != nil {
				want = expect[d][den]
			}
			got := coinDelta(prev, next, d, den)
			if got.Cmp(want) != 0 {
				cause := "payout-amount"
				if x.Op.K != world.KBlock {
					cause = "balance-changed-outside-endblock"
				} else if want.Sign() == 0 {
					cause = "early-or-foreign-payout"
				} else if got.Sign() == 0 {
					cause = "late-or-missing-payout"
				}
				out = append(out, fail("payout", cause, "%s: delegator d%d %s balance delta %s, reference %s", x.Op.String(), d, den, got, want))
			}
		}
	}
	out = append(out, compareUnb(next, ref, "queue")...)
	return out
}

func c02Scenario(name string, unbonding time.Duration, tier string, budgets []int, depth int) *engine.Scenario {
	cfg := world.DefaultConfig()
	cfg.UnbondingTime = unbonding
	// take rate off: payouts must equal the requested amounts whatever the share price does; C09 covers the take rate
	cfg.Assets[0].TakeRate = "0"
	seed := []world.Op{opDel(0, 0, "aaa", "1000"), opDel(0, 1, "aaa", "1000"), opDel(0, 0, "bbb", "1000"), opDel(1, 0, "aaa", "1000")}
	other := 3 * U
	if unbonding == 3*U {
		other = 1 * U
	}
	al := Alpha{
		SlashVals: []int{0, 1}, SlashF: []string{"0.333333333333333333", "0.5"},
		BlockDts: tierPick(tier, dts(1, 2, 3), dts(1, 2, 3, 7)),
		Extra: func(n *engine.Node) []world.Op {
			var ops []world.Op
			amts := tierPick(tier, []string{"7"}, []string{"1", "7"})
			for _, pos := range [][3]any{{0, 0, "aaa"}, {0, 1, "aaa"}, {0, 0, "bbb"}, {1, 0, "aaa"}} {
				for _, a := range amts {
					ops = append(ops, world.Op{K: world.KUndelegate, D: pos[0].(int), V: pos[1].(int), Denom: pos[2].(string), Amt: a, Class: ClsUser})
				}
			}
			ops = append(ops, world.Op{K: world.KUndelegateAll, D: 1, V: 0, Denom: "aaa", Class: ClsUser})
			ops = append(ops, world.Op{K: world.KUnbondingTime, Dt: int64(other), Class: ClsEnv})
			if tier == "thorough" {
				ops = append(ops, world.Op{K: world.KBlock, Dt: 1, Class: ClsBlock}, world.Op{K: world.KBlock, Dt: int64(3*U - 1), Class: ClsBlock}, world.Op{K: world.KBlock, Dt: int64(3*U + 1), Class: ClsBlock})
			}
			return ops
		},
	}
	return &engine.Scenario{
		Property: "C02", Name: name, Cfg: cfg, Stores: world.ModuleStores,
		Seeds: [][]world.Op{seed}, ClassNames: classNames, Budgets: budgets, MaxDepth: depth,
		NewRef: func(w *world.World, root *engine.Node) engine.Ref { return newPendRef() },
		Ops:    al.Ops, Step: c02Step, SeedStep: true,
		Required: []string{"payouts", "bucket.with_2plus_entries", "slash.hit_pending_entry", "endblock.entry_exactly_at_completion_instant"},
	}
}

// c02Restart: the chain is restarted from a genesis export while unbondings are pending (packed: one delegator, one
// block, two validators and two denoms, a second delegator in the same block); the restarted chain must slash and pay
// them exactly as the original would have.
func c02Restart(tier string) *engine.Scenario {
	cfg := world.DefaultConfig()
	cfg.Assets[0].TakeRate = "0"
	seed := []world.Op{opDel(0, 0, "aaa", "1000"), opDel(0, 1, "aaa", "1000"), opDel(0, 0, "bbb", "1000"), opDel(1, 0, "aaa", "1000"), opBlock(1),
		opUnd(0, 0, "aaa", "7"), opUnd(0, 0, "bbb", "9"), opUnd(0, 1, "aaa", "11"), opUnd(1, 0, "aaa", "13")}
	al := Alpha{
		SlashVals: []int{0, 1}, SlashF: []string{"0.333333333333333333", "0.5"},
		BlockDts: dts(1, 3, 4),
		Extra: func(n *engine.Node) []world.Op {
			ops := []world.Op{{K: world.KReimport, Class: ClsEnv}}
			for _, pos := range [][3]any{{0, 0, "aaa"}, {0, 0, "bbb"}, {1, 0, "aaa"}} {
				ops = append(ops, world.Op{K: world.KUndelegate, D: pos[0].(int), V: pos[1].(int), Denom: pos[2].(string), Amt: "5", Class: ClsUser})
			}
			return ops
		},
	}
	return &engine.Scenario{
		Property: "C02", Name: "c02-restart", Cfg: cfg, Stores: world.ModuleStores,
		Seeds: [][]world.Op{seed}, ClassNames: classNames, Budgets: tierPick(tier, []int{2, 1, 1, 3, 0}, []int{3, 2, 2, 4, 0}), MaxDepth: tierPick(tier, 7, 9),
		NewRef: func(w *world.World, root *engine.Node) engine.Ref { return newPendRef() },
		Ops:    al.Ops, Step: c02Step, SeedStep: true,
		Required: []string{"payouts", "restart.with_pending_entries", "slash.hit_pending_entry_after_restart"},
	}
}

// c02LastAsset: pending unbondings must still be paid (and slashed) after governance deleted their asset - including
// the case where no alliance asset is left at all.
func c02LastAsset(tier string) *engine.Scenario {
	cfg := world.DefaultConfig()
	cfg.Assets = []world.AssetCfg{{Denom: "aaa", Weight: "1", Min: "0", Max: "5", TakeRate: "0"}}
	cfg.ExtraDenoms = []string{"aaa"}
	seed := []world.Op{opDel(0, 0, "aaa", "1000"), opDel(1, 1, "aaa", "500")}
	ops := func(n *engine.Node) []world.Op {
		var ops []world.Op
		s := n.Snap()
		for _, p := range s.Pos {
			ops = append(ops, world.Op{K: world.KUndelegateAll, D: p.D, V: p.V, Denom: "aaa", Class: ClsUser})
			ops = append(ops, world.Op{K: world.KUndelegate, D: p.D, V: p.V, Denom: "aaa", Amt: "7", Class: ClsUser})
		}
		if a, ok := s.Assets["aaa"]; ok && a.TotalTokens.IsZero() {
			ops = append(ops, world.Op{K: world.KGovDelete, Denom: "aaa", Class: ClsGov, Args: map[string]string{"signer": "authority"}})
		}
		if _, ok := s.Assets["aaa"]; !ok {
			ops = append(ops, world.Op{K: world.KGovCreate, Denom: "aaa", Class: ClsGov, Args: govArgs("authority", "1", "0,5", "0", "1", 0, false)})
		}
		ops = append(ops, world.Op{K: world.KSlash, V: 0, F: "0.333333333333333333", Class: ClsSlash})
		// a 100% slash takes a pending entry to zero: it is still settled (and its index dropped) on schedule, paying nothing
		ops = append(ops, world.Op{K: world.KSlash, V: 0, F: "1", Class: ClsSlash})
		for _, dt := range dts(1, 3) {
			ops = append(ops, world.Op{K: world.KBlock, Dt: int64(dt), Class: ClsBlock})
		}
		return ops
	}
	step := func(x *engine.Exec) []engine.Failure {
		if !x.Res.Rejected && x.Op.K == world.KGovDelete {
			x.Cnt.Inc("asset.deleted_with_pending_unbondings")
		}
		if !x.Res.Rejected && x.Op.K == world.KBlock && len(x.Prev.Snap().Denoms) == 0 && len(x.Prev.Snap().Unb) > len(x.Next.Snap().Unb) {
			x.Cnt.Inc("payout.with_no_asset_left")
		}
		return c02Step(x)
	}
	return &engine.Scenario{
		Property: "C02", Name: "c02-asset-deleted", Cfg: cfg, Stores: world.ModuleStores,
		Seeds: [][]world.Op{seed}, ClassNames: classNames, Budgets: tierPick(tier, []int{3, 1, 0, 4, 1}, []int{4, 1, 0, 5, 2}), MaxDepth: tierPick(tier, 8, 10),
		NewRef: func(w *world.World, root *engine.Node) engine.Ref { return newPendRef() },
		Ops:    ops, Step: step, SeedStep: true,
		Required: []string{"asset.deleted_with_pending_unbondings", "payout.with_no_asset_left", "payouts", "endblock.settled_entry_slashed_to_zero"},
	}
}

// c02UnbondingValidator: undelegations from a validator that x/staking is itself unbonding (jailed, left the active set
// at t0, so its own UnbondingTime t0+period is EARLIER than the completion time of anything undelegated after t0): the
// alliance entry matures one full period after ITS request, not when the validator finishes unbonding.
func c02UnbondingValidator(tier string) *engine.Scenario {
	cfg := world.DefaultConfig()
	cfg.FullPipeline = true
	cfg.Assets[0].TakeRate = "0"
	seed := []world.Op{opDel(0, 0, "aaa", "1000"), opDel(0, 1, "aaa", "1000"), opDel(1, 0, "aaa", "1000"), opBlock(1),
		{K: world.KJail, V: 0, Class: ClsEnv}, opBlock(1)}
	ops := func(n *engine.Node) []world.Op {
		var ops []world.Op
		for _, pos := range [][2]int{{0, 0}, {0, 1}, {1, 0}} {
			ops = append(ops, world.Op{K: world.KUndelegate, D: pos[0], V: pos[1], Denom: "aaa", Amt: "7", Class: ClsUser})
		}
		ops = append(ops, world.Op{K: world.KUnjail, V: 0, Class: ClsEnv})
		for _, dt := range dts(1, 2, 3) {
			ops = append(ops, world.Op{K: world.KBlock, Dt: int64(dt), Class: ClsBlock})
		}
		return ops
	}
	return &engine.Scenario{
		Property: "C02", Name: "c02-unbonding-validator", Cfg: cfg, Stores: world.AllStores,
		Seeds: [][]world.Op{seed}, ClassNames: classNames, Budgets: tierPick(tier, []int{2, 0, 1, 4, 0}, []int{3, 0, 1, 5, 0}), MaxDepth: tierPick(tier, 6, 8),
		NewRef: func(w *world.World, root *engine.Node) engine.Ref { return newPendRef() },
		Ops:    ops, Step: c02Step, SeedStep: true,
		Required: []string{"payouts"},
	}
}

func init() {
	register(&Property{
		ID:    "C02",
		Title: "Unbonding payout: exactly once, exact amount, never before maturity",
		Scenarios: func(tier string) []*engine.Scenario {
			if tier == "thorough" {
				return []*engine.Scenario{
					c02Restart(tier),
					c02UnbondingValidator(tier),
					c02LastAsset(tier),
					c02Scenario("c02-unbonding3u", 3*U, tier, []int{4, 2, 1, 5, 0}, 10),
					c02Scenario("c02-unbonding1u", 1*U, tier, []int{4, 2, 1, 4, 0}, 9),
				}
			}
			return []*engine.Scenario{
				c02Restart(tier),
				c02UnbondingValidator(tier),
				c02LastAsset(tier),
				c02Scenario("c02-unbonding3u", 3*U, tier, []int{3, 1, 1, 3, 0}, 6),
				c02Scenario("c02-unbonding1u", 1*U, tier, []int{2, 1, 1, 3, 0}, 5),
			}
		},
		Assumptions: []string{
			"time lattice of DESIGN §3: unbonding period 1u or 3u (changed mid-history by a staking-parameter transition), block steps 1u/2u/3u(/7u, ±1ns in thorough)",
			"no reward inflow in this scenario, so EndBlocker pays nothing but unbondings and delegator balances in asset denoms have a closed-form reference",
		},
	})
}
