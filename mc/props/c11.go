package props

import (
	"math/big"

	"cosmossdk.io/math"
	banktypes "github.com/cosmos/cosmos-sdk/x/bank/types"

	"verifmc/engine"
	"verifmc/world"
)

// net = bank supply of the bond denom minus the module's own stake (exact).
func netSupply(st *stakeSnap) *big.Rat {
	n := world.RatInt(st.Supply)
	for _, t := range st.ModTokens {
		n = ratSub(n, t)
	}
	return n
}

func c11Step(x *engine.Exec) []engine.Failure {
	if x.Res.Rejected {
		return nil
	}
	w := x.W
	prev, next := x.Prev.Snap(), x.Next.Snap()
	ps, ns := nodeStake(x.Prev), nodeStake(x.Next)
	var out []engine.Failure
	dNet := ratSub(netSupply(ns), netSupply(ps))
	changed := 0
	for v := range ns.ModShares {
		if ns.ModShares[v].Cmp(ps.ModShares[v]) != 0 {
			changed++
		}
	}
	switch x.Op.K {
	case world.KDelegate, world.KUndelegate, world.KUndelegateAll, world.KRedelegate, world.KRedelegateAll, world.KClaim:
		// alliance user transactions never touch the bond-denom supply or the module's stake
		if dNet.Sign() != 0 || changed != 0 {
			out = append(out, fail("net-supply", "", "%s changed the net bond-denom supply by %s (module delegations changed on %d validators)", x.Op.String(), world.RatF(dNet), changed))
		}
		x.Cnt.Inc("tx.alliance")
	case world.KBlock:
		if x.Res.Err != nil {
			return []engine.Failure{fail("endblock", "error", "block failed: %v", x.Res.Err)}
		}
		// rebalancing: mint+delegate is exact, each Unbond truncates < 1 unit in favour of the validator's other delegators
		// analysis: an Unbond returns floor(shares x rate); the truncated fraction eps in [0,1) stays with the validator and is
		// shared pro rata, so the net supply moves by eps x (1 - module fraction) in [0,1) per validator unbonded from - never
		// down; mint+delegate is exact up to the 18-digit share quotient
		decreased := 0
		for v := range ns.ModShares {
			if ns.ModShares[v].Cmp(ps.ModShares[v]) < 0 {
				decreased++
			}
		}
		bound := ratI(int64(decreased))
		lower := big.NewRat(-1, 1000000)
		if dNet.Cmp(lower) < 0 || (decreased > 0 && dNet.Cmp(bound) >= 0) || (decreased == 0 && absRat(dNet).Cmp(big.NewRat(1, 1000000)) > 0) {
			cause := ""
			if c := c10Classify(x); c == "validator-removed-while-alliance-stake-on-it" {
				cause = c
			}
			out = append(out, fail("net-supply", cause, "%s changed the net bond-denom supply by %s; module delegations decreased on %d validators (allowed: [0, 1) per validator unbonded from)", x.Op.String(), world.RatF(dNet), decreased))
		}
		if changed > 0 {
			x.Cnt.Inc("block.rebalanced")
			up, down := false, false
			for v := range ns.ModShares {
				if c := ns.ModShares[v].Cmp(ps.ModShares[v]); c > 0 {
					up = true
				} else if c < 0 {
					down = true
				}
			}
			if up {
				x.Cnt.Inc("block.rebalanced_up")
			}
			if down {
				x.Cnt.Inc("block.rebalanced_down")
			}
		}
		if !ns.ModuleBal.IsZero() {
			out = append(out, fail("module-balance", "", "after %s the alliance module account holds %s of the bond denom", x.Op.String(), ns.ModuleBal))
		}
	case world.KSlash:
		// a real slash burns the validator's tokens pro rata: the module's part of the burn does not reduce the net supply
		burn := world.RatInt(ps.Supply.Sub(ns.Supply))
		frac := new(big.Rat)
		if ps.Shares[x.Op.V].Sign() > 0 {
			frac = ratQuo(ps.ModShares[x.Op.V], ps.Shares[x.Op.V])
		}
		want := new(big.Rat).Neg(ratMul(burn, ratSub(ratI(1), frac)))
		if absRat(ratSub(dNet, want)).Cmp(ratI(1)) > 0 {
			out = append(out, fail("net-supply", "", "%s: net supply changed by %s, expected -(burn %s x native fraction) = %s", x.Op.String(), world.RatF(dNet), world.RatF(burn), world.RatF(want)))
		}
		x.Cnt.Inc("real_slash")
	case world.KReward:
		// fee inflow is real money minted by the harness: net supply grows by exactly that amount
		if dNet.Cmp(world.RatInt(mi(x.Op.Amt))) != 0 {
			out = append(out, fail("net-supply", "harness", "reward inflow of %s changed net supply by %s", x.Op.Amt, world.RatF(dNet)))
		}
	case world.KNDelegate, world.KNUndelegate, world.KNUndelegateAll, world.KNRedelegateAll, world.KJail, world.KUnjail, world.KMaxVals, world.KGovUpdate, world.KGovCreate:
		// native staking operations truncate share/token conversions on the validators they touch (< 1 unit each, shifted
		// between that validator's delegators, the module being one of them)
		if absRat(dNet).Cmp(ratI(2)) >= 0 {
			out = append(out, fail("net-supply", "", "%s changed the net bond-denom supply by %s", x.Op.String(), world.RatF(dNet)))
		}
	}
	// no alliance delegator ever receives bond-denom coins except from the rewards pool
	gain := math.ZeroInt()
	for d := range next.DelBal {
		gain = gain.Add(next.DelBal[d].AmountOf("stake").Sub(prev.DelBal[d].AmountOf("stake")))
	}
	// what users receive must come out of real reward money: the rewards pool, refilled from x/distribution in the same step
	paidOut := ps.PoolBal.Sub(ns.PoolBal).Add(ps.DistrBal.Sub(ns.DistrBal))
	if x.Op.K != world.KReward && gain.IsPositive() && gain.GT(paidOut) {
		out = append(out, fail("user-balance", "", "%s: alliance delegators gained %s of the bond denom but rewards pool + distribution account only released %s", x.Op.String(), gain, paidOut))
	}
	if gain.IsPositive() {
		x.Cnt.Inc("tx.reward_payout")
	}
	// supply queries report the supply net of the alliance-bonded amount
	// the alliance-bonded amount as the system defines it: the module's token value summed over BONDED validators, truncated
	// once (GetAllianceBondedAmount sums 18-digit decimals and truncates the sum)
	bondedSum := new(big.Rat)
	for v := range ns.Bonded {
		if ns.Bonded[v] {
			bondedSum.Add(bondedSum, ns.ModTokens[v])
		}
	}
	bonded := math.NewIntFromBigInt(world.Floor(bondedSum))
	wantSupply := ns.Supply.Sub(bonded)
	if res, err := w.App.BankKeeper.SupplyOf(x.Next.Ctx, &banktypes.QuerySupplyOfRequest{Denom: "stake"}); err != nil || !res.Amount.Amount.Equal(wantSupply) {
		out = append(out, fail("supply-query", "", "after %s: SupplyOf(stake) = %v (err %v), bank supply %s minus alliance-bonded %s = %s", x.Op.String(), res, err, ns.Supply, bonded, wantSupply))
	}
	if res, err := w.App.BankKeeper.TotalSupply(x.Next.Ctx, &banktypes.QueryTotalSupplyRequest{}); err != nil || !res.Supply.AmountOf("stake").Equal(wantSupply) {
		out = append(out, fail("supply-query", "total", "after %s: TotalSupply reports %v of stake (err %v), expected %s", x.Op.String(), res, err, wantSupply))
	}
	x.Cnt.Inc("supply_query.checked")
	if bonded.IsPositive() {
		x.Cnt.Inc("supply_query.with_alliance_bonded")
	}
	return out
}

func init() {
	register(&Property{
		ID:    "C11",
		Title: "Virtual staking tokens never leak; native supply preserved and reported net",
		Scenarios: func(tier string) []*engine.Scenario {
			mk := func(name string, budgets []int, depth int) *engine.Scenario {
				return &engine.Scenario{
					Property: "C11", Name: name, Cfg: c10Config(), Stores: world.AllStores,
					Seeds: [][]world.Op{c10Seed}, ClassNames: classNames, Budgets: budgets, MaxDepth: depth,
					Ops: c10Ops(tier, true), Step: c11Step, SeedStep: true,
					Required: []string{"tx.alliance", "block.rebalanced_up", "block.rebalanced_down", "real_slash", "supply_query.with_alliance_bonded", "tx.reward_payout"},
				}
			}
			// all reward weights zero while the module still has bonded stake (mid-block after the governance update, and
			// sub-unit remainders after real slashes): the supply queries must stay net
			zcfg := world.DefaultConfig()
			zcfg.FullPipeline = true
			zcfg.Assets = []world.AssetCfg{{Denom: "aaa", Weight: "1", Min: "0", Max: "5", TakeRate: "0"}}
			zseed := []world.Op{opDel(0, 0, "aaa", "1000000"), opDel(1, 1, "aaa", "500000"), opDel(1, 2, "aaa", "700000"), opBlock(1)}
			zops := func(n *engine.Node) []world.Op {
				var ops []world.Op
				for _, w := range []string{"0", "1.3"} {
					ops = append(ops, world.Op{K: world.KGovUpdate, Denom: "aaa", Class: ClsGov, Args: govArgs("authority", w, "0,5", "0", "1", 0, false)})
				}
				for v, f := range []string{"0.05", "0.01", "0.07"} {
					ops = append(ops, world.Op{K: world.KSlash, V: v, F: f, Class: ClsSlash})
				}
				ops = append(ops, world.Op{K: world.KBlock, Dt: int64(U), Class: ClsBlock})
				return ops
			}
			zero := &engine.Scenario{
				Property: "C11", Name: "c11-zero-weights", Cfg: zcfg, Stores: world.AllStores,
				Seeds: [][]world.Op{zseed}, ClassNames: classNames, Budgets: tierPick(tier, []int{0, 3, 0, 3, 2}, []int{0, 3, 0, 4, 2}), MaxDepth: tierPick(tier, 7, 9),
				Ops: zops, Step: func(x *engine.Exec) []engine.Failure {
					if !x.Res.Rejected && x.Op.K == world.KGovUpdate && x.Op.Args["w"] == "0" {
						x.Cnt.Inc("all_weights_zero_with_module_stake")
					}
					return c11Step(x)
				}, SeedStep: true,
				Required: []string{"all_weights_zero_with_module_stake", "real_slash", "supply_query.with_alliance_bonded"},
			}
			// three and four started assets of equal (and of unequal) weight on one validator: the 18-digit shares of a
			// validator's reward no longer add up to exactly 1, every reward settlement has a sub-unit remainder somewhere
			tcfg := world.DefaultConfig()
			tcfg.FullPipeline = true
			tcfg.Assets = []world.AssetCfg{
				{Denom: "aaa", Weight: "1", Min: "0", Max: "5", TakeRate: "0"}, {Denom: "bbb", Weight: "1", Min: "0", Max: "5", TakeRate: "0"},
				{Denom: "ccc", Weight: "1", Min: "0", Max: "5", TakeRate: "0"}, {Denom: "ddd", Weight: "0.7", Min: "0", Max: "5", TakeRate: "0"},
			}
			tcfg.DelFunds["ccc"], tcfg.DelFunds["ddd"] = "1000000000000", "1000000000000"
			three := &engine.Scenario{
				Property: "C11", Name: "c11-several-assets-per-validator", Cfg: tcfg, Stores: world.AllStores,
				Seeds: [][]world.Op{
					{opDel(0, 0, "aaa", "1000000"), opDel(0, 0, "bbb", "1000000"), opDel(1, 0, "ccc", "1000000"), opDel(1, 1, "aaa", "500000"), opBlock(1)},
					{opDel(0, 0, "aaa", "1000000"), opDel(0, 0, "bbb", "1000000"), opDel(1, 0, "ccc", "1000000"), opDel(1, 0, "ddd", "300000"), opBlock(1)},
					// V1 carries module stake and validator shares but no alliance delegator any more: its only position arrived by
					// redelegation, was mostly withdrawn and then wiped by the capped slash of the source (the shares it burnt stay
					// on the validator, K-C07); rewards the module earns there still have to be settled before its stake changes
					{opDel(0, 0, "aaa", "1000000"), opDel(1, 2, "aaa", "500000"), opBlock(1), {K: world.KRedelegateAll, D: 0, V: 0, V2: 1, Denom: "aaa"},
						opUnd(0, 1, "aaa", "960000"), opSlash(0, "0.05"), opBlock(1)},
				},
				ClassNames: classNames, Budgets: tierPick(tier, []int{2, 0, 2, 3, 0}, []int{3, 1, 3, 4, 0}), MaxDepth: tierPick(tier, 6, 8),
				Ops: func(n *engine.Node) []world.Op {
					ops := []world.Op{
						{K: world.KClaim, D: 0, V: 0, Denom: "aaa", Class: ClsUser}, {K: world.KClaim, D: 1, V: 0, Denom: "ccc", Class: ClsUser},
						{K: world.KDelegate, D: 0, V: 0, Denom: "bbb", Amt: "250000", Class: ClsUser}, {K: world.KUndelegate, D: 0, V: 0, Denom: "aaa", Amt: "400000", Class: ClsUser},
						{K: world.KDelegate, D: 1, V: 2, Denom: "aaa", Amt: "250000", Class: ClsUser}, // shifts every validator's share of aaa, and with it its target
						{K: world.KSlash, V: 0, F: "0.05", Class: ClsSlash},
						{K: world.KBlock, Dt: int64(U), Class: ClsBlock},
					}
					if atBlockStart(n) {
						ops = append(ops, world.Op{K: world.KReward, Denom: "stake", Amt: "1000003", Class: ClsEnv}, world.Op{K: world.KReward, Denom: "stake", Amt: "7", Class: ClsEnv})
					}
					return ops
				},
				Step: c11Step, SeedStep: true,
				Required: []string{"tx.alliance", "tx.reward_payout", "supply_query.with_alliance_bonded"},
			}
			if tier == "thorough" {
				return []*engine.Scenario{mk("c11-virtual-stake", []int{2, 1, 3, 4, 1}, 8), zero, three}
			}
			return []*engine.Scenario{mk("c11-virtual-stake", []int{2, 1, 1, 2, 1}, 5), zero, three}
		},
		Assumptions: []string{
			"same full-pipeline world and alphabet as C10 plus fee inflow and claims; mint inflation is zero so the net supply (bank supply minus the exact token value of the module's delegations) has a closed form",
			"per-block bound: |delta net| <= number of validators whose module delegation changed (each Unbond truncates < 1 unit), 0 when none changed; real slash: delta net = -(burn x native fraction) within 1",
		},
	})
}
