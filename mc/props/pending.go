package props

import (
	"fmt"
	"math/big"
	"sort"
	"strings"
	"time"

	"verifmc/engine"
	"verifmc/world"
)

// Reference model of pending unbondings and redelegations: two plain lists (DESIGN §4 C02/C07/C15).

type refUnb struct {
	D, V  int
	Denom string
	Amt   *big.Int
	C     int64 // completion, unix nanoseconds
}

type refRed struct {
	D, Src, Dst int
	Denom       string
	Amt         *big.Int
	C           int64
}

type pendRef struct {
	Unb  []refUnb
	Red  []refRed
	Gift map[string]*big.Int
	// Restarted: the chain was re-created from a genesis export while a merged redelegation record (two sources, one
	// destination, one block) was pending; the export keeps only the record's first source (K-C18-merged-redelegation-record)
	RestartedWithMergedRecord bool
}

func newPendRef() *pendRef { return &pendRef{Gift: map[string]*big.Int{}} }

func (p *pendRef) Clone() engine.Ref {
	n := &pendRef{Gift: map[string]*big.Int{}}
	for _, u := range p.Unb {
		u.Amt = new(big.Int).Set(u.Amt)
		n.Unb = append(n.Unb, u)
	}
	for _, r := range p.Red {
		r.Amt = new(big.Int).Set(r.Amt)
		n.Red = append(n.Red, r)
	}
	for k, v := range p.Gift {
		n.Gift[k] = new(big.Int).Set(v)
	}
	n.RestartedWithMergedRecord = p.RestartedWithMergedRecord
	return n
}

// onRestart notes whether a merged primary record is pending at the moment of a genesis export.
func (p *pendRef) onRestart() {
	seen := map[string]int{}
	for _, r := range p.Red {
		k := fmt.Sprintf("%d/%s/%d@%d", r.D, r.Denom, r.Dst, r.C)
		if src, ok := seen[k]; ok && src != r.Src {
			p.RestartedWithMergedRecord = true
		}
		seen[k] = r.Src
	}
}

func (u refUnb) key() string {
	return fmt.Sprintf("d%d/v%d/%s/%s@%d", u.D, u.V, u.Denom, u.Amt, u.C)
}
func (r refRed) key() string {
	return fmt.Sprintf("d%d/v%d->v%d/%s/%s@%d", r.D, r.Src, r.Dst, r.Denom, r.Amt, r.C)
}

func (p *pendRef) Digest() []byte {
	var ks []string
	for _, u := range p.Unb {
		ks = append(ks, "U"+u.key())
	}
	for _, r := range p.Red {
		ks = append(ks, "R"+r.key())
	}
	sort.Strings(ks)
	if p.RestartedWithMergedRecord {
		ks = append(ks, "restarted-with-merged-record")
	}
	return []byte(strings.Join(ks, ";"))
}

// onUndelegate records a successful undelegation executed at the pre-state's block time.
func (p *pendRef) onUndelegate(x *engine.Exec) {
	prev := x.Prev.Snap()
	p.Unb = append(p.Unb, refUnb{D: x.Op.D, V: x.Op.V, Denom: x.Op.Denom, Amt: new(big.Int).Set(x.Res.Amount.BigInt()), C: prev.Time.Add(prev.UnbondingTime).UnixNano()})
}

func (p *pendRef) onRedelegate(x *engine.Exec) {
	prev := x.Prev.Snap()
	p.Red = append(p.Red, refRed{D: x.Op.D, Src: x.Op.V, Dst: x.Op.V2, Denom: x.Op.Denom, Amt: new(big.Int).Set(x.Res.Amount.BigInt()), C: prev.Time.Add(prev.UnbondingTime).UnixNano()})
}

// onSlash reduces pending unbondings that originated from v (completion not before now) by floor(f*amt);
// returns the expected fee-collector delta per denom and the number of entries hit.
func (p *pendRef) onSlash(v int, f *big.Rat, now time.Time) (map[string]*big.Int, int) {
	fee := map[string]*big.Int{}
	hit := 0
	for i := range p.Unb {
		u := &p.Unb[i]
		if u.V != v || u.C < now.UnixNano() {
			continue
		}
		cut := world.Floor(new(big.Rat).Mul(f, new(big.Rat).SetInt(u.Amt)))
		u.Amt = new(big.Int).Sub(u.Amt, cut)
		if fee[u.Denom] == nil {
			fee[u.Denom] = new(big.Int)
		}
		fee[u.Denom].Add(fee[u.Denom], cut)
		hit++
	}
	return fee, hit
}

// resyncUnb re-reads the pending unbonding amounts from the raw decode of the queue. Used after a slash callback that
// aborted half way: the list model cannot know how far it got, and the transitions that follow must be judged against
// what is really pending (the abort itself is reported where it happens).
func (p *pendRef) resyncUnb(s *world.Snap) {
	p.Unb = nil
	for _, u := range s.Unb {
		p.Unb = append(p.Unb, refUnb{D: u.D, V: u.V, Denom: u.Denom, Amt: new(big.Int).Set(u.Amt.BigInt()), C: u.Completion.UnixNano()})
	}
}

// pendingRedsFrom lists reference redelegations out of v still pending at now.
func (p *pendRef) pendingRedsFrom(v int, now time.Time) []refRed {
	var out []refRed
	for _, r := range p.Red {
		if r.Src == v && r.C >= now.UnixNano() {
			out = append(out, r)
		}
	}
	return out
}

// onEndBlock matures entries with completion strictly before now; returns payouts per delegator and denom.
func (p *pendRef) onEndBlock(now time.Time) (pay map[int]map[string]*big.Int, nPaid, nAtBoundary int) {
	pay = map[int]map[string]*big.Int{}
	var keep []refUnb
	for _, u := range p.Unb {
		if u.C == now.UnixNano() {
			nAtBoundary++
		}
		if u.C < now.UnixNano() {
			if pay[u.D] == nil {
				pay[u.D] = map[string]*big.Int{}
			}
			if pay[u.D][u.Denom] == nil {
				pay[u.D][u.Denom] = new(big.Int)
			}
			pay[u.D][u.Denom].Add(pay[u.D][u.Denom], u.Amt)
			nPaid++
			continue
		}
		keep = append(keep, u)
	}
	p.Unb = keep
	var keepR []refRed
	for _, r := range p.Red {
		if r.C < now.UnixNano() {
			continue
		}
		keepR = append(keepR, r)
	}
	p.Red = keepR
	return
}

// compareUnb checks that the stored queue and its per-validator index are exactly the reference's unpaid entries.
func compareUnb(s *world.Snap, p *pendRef, oracle string) []engine.Failure {
	var out []engine.Failure
	want := map[string]int{}
	for _, u := range p.Unb {
		want[u.key()]++
	}
	got := map[string]int{}
	for _, u := range s.Unb {
		got[refUnb{D: u.D, V: u.V, Denom: u.Denom, Amt: u.Amt.BigInt(), C: u.Completion.UnixNano()}.key()]++
		if u.BucketD != u.D {
			out = append(out, fail(oracle, "entry-in-foreign-bucket", "entry %s stored in the bucket of delegator d%d", u.Key(), u.BucketD))
		}
	}
	for k, n := range want {
		if got[k] != n {
			out = append(out, fail(oracle, "queue-mismatch", "pending unbonding %s: reference has %d, store has %d (store: %s)", k, n, got[k], unbList(s)))
			break
		}
	}
	for k, n := range got {
		if want[k] != n {
			out = append(out, fail(oracle, "queue-mismatch", "stored unbonding %s: store has %d, reference has %d (ref: %s)", k, n, want[k], refUnbList(p)))
			break
		}
	}
	wantIdx := map[string]bool{}
	for _, u := range p.Unb {
		wantIdx[fmt.Sprintf("v%d@%d/%s/d%d", u.V, u.C, u.Denom, u.D)] = true
	}
	gotIdx := map[string]bool{}
	for _, i := range s.UnbIdx {
		gotIdx[fmt.Sprintf("v%d@%d/%s/d%d", i.V, i.Completion.UnixNano(), i.Denom, i.D)] = true
	}
	for k := range wantIdx {
		if !gotIdx[k] {
			out = append(out, fail(oracle, "index-missing", "per-validator index key %s missing for a pending entry", k))
			break
		}
	}
	for k := range gotIdx {
		if !wantIdx[k] {
			out = append(out, fail(oracle, "index-left-behind", "per-validator index key %s has no pending entry", k))
			break
		}
	}
	return out
}

func unbList(s *world.Snap) string {
	var b []string
	for _, u := range s.Unb {
		b = append(b, fmt.Sprintf("d%d/v%d/%s/%s@%d", u.D, u.V, u.Denom, u.Amt, u.Completion.UnixNano()))
	}
	return strings.Join(b, " ")
}

func refUnbList(p *pendRef) string {
	var b []string
	for _, u := range p.Unb {
		b = append(b, u.key())
	}
	return strings.Join(b, " ")
}

// compareRed checks primary records, source index and queue of redelegations against the reference.
// Records are compared per (delegator, denom, dst, completion) with summed balance because the primary record is
// keyed without the source; the index is compared per source.
func compareRed(s *world.Snap, p *pendRef, oracle string) []engine.Failure {
	var out []engine.Failure
	want := map[string]*big.Int{}
	wantIdx := map[string]bool{}
	wantQ := map[string]int{}
	for _, r := range p.Red {
		k := fmt.Sprintf("d%d/%s/->v%d@%d", r.D, r.Denom, r.Dst, r.C)
		if want[k] == nil {
			want[k] = new(big.Int)
		}
		want[k].Add(want[k], r.Amt)
		wantIdx[fmt.Sprintf("v%d@%d/%s/->v%d/d%d", r.Src, r.C, r.Denom, r.Dst, r.D)] = true
		wantQ[r.key()]++
	}
	got := map[string]*big.Int{}
	for _, r := range s.Redels {
		k := fmt.Sprintf("d%d/%s/->v%d@%d", r.D, r.Denom, r.Dst, r.Completion.UnixNano())
		if got[k] != nil {
			out = append(out, fail(oracle, "duplicate-record", "two primary redelegation records for %s", k))
		}
		got[k] = r.Amt.BigInt()
	}
	// sorted: which of the two causes is reported first must not depend on map order (a failure is replayed twice and must
	// come back under the same label)
	for _, k := range sortedKeys(want) {
		a := want[k]
		if got[k] == nil {
			out = append(out, fail(oracle, "record-missing", "pending redelegation %s (%s) has no primary record", k, a))
			break
		}
		if got[k].Cmp(a) != 0 {
			out = append(out, fail(oracle, "record-amount", "pending redelegation %s: record %s, reference %s", k, got[k], a))
			break
		}
	}
	for k := range got {
		if want[k] == nil {
			out = append(out, fail(oracle, "record-left-behind", "primary redelegation record %s has no pending reference entry", k))
			break
		}
	}
	gotIdx := map[string]bool{}
	for _, i := range s.RedelIdx {
		gotIdx[fmt.Sprintf("v%d@%d/%s/->v%d/d%d", i.Src, i.Completion.UnixNano(), i.Denom, i.Dst, i.D)] = true
	}
	for k := range wantIdx {
		if !gotIdx[k] {
			out = append(out, fail(oracle, "index-missing", "source index key %s missing", k))
			break
		}
	}
	for k := range gotIdx {
		if !wantIdx[k] {
			out = append(out, fail(oracle, "index-left-behind", "source index key %s has no pending entry", k))
			break
		}
	}
	gotQ := map[string]int{}
	for _, r := range s.RedelQ {
		gotQ[refRed{D: r.D, Src: r.Src, Dst: r.Dst, Denom: r.Denom, Amt: r.Amt.BigInt(), C: r.Completion.UnixNano()}.key()]++
	}
	for k, n := range wantQ {
		if gotQ[k] != n {
			out = append(out, fail(oracle, "queue-mismatch", "redelegation queue entry %s: reference %d, store %d", k, n, gotQ[k]))
			break
		}
	}
	for k, n := range gotQ {
		if wantQ[k] != n {
			out = append(out, fail(oracle, "queue-left-behind", "redelegation queue entry %s: store %d, reference %d", k, n, wantQ[k]))
			break
		}
	}
	return out
}
