package props

import (
	"fmt"
	"math/big"
	"strings"

	"verifmc/engine"
	"verifmc/world"
)

const rewardDenom = "stake"

// rewardStep is the shared reward oracle (C13 entitlement; also drives the reference for C12/C14).
// It returns failures of the entitlement oracle for user transactions.
func rewardStep(x *engine.Exec, ref *rewRef, oracle string) []engine.Failure {
	var out []engine.Failure
	w := x.W
	prev, next := x.Prev.Snap(), x.Next.Snap()
	switch x.Op.K {
	case world.KReward:
		ref.onAllocation(w, x)
		x.Cnt.Inc("reward.allocations")
		ref.poolFlow(prev, next, nil)
		return nil
	case world.KDelegate, world.KUndelegate, world.KUndelegateAll, world.KRedelegate, world.KRedelegateAll, world.KClaim:
		claimed := claimedPositions(x)
		paid := map[string]*big.Int{}
		if x.Op.D >= 0 && x.Op.D < len(next.DelBal) {
			got := new(big.Int).Sub(next.DelBal[x.Op.D].AmountOf(rewardDenom).BigInt(), prev.DelBal[x.Op.D].AmountOf(rewardDenom).BigInt())
			paid[rewardDenom] = got
			E := new(big.Rat)
			slack := int64(1)
			for _, k := range claimed {
				if ref.E[k] != nil && ref.E[k][rewardDenom] != nil {
					E.Add(E, ref.E[k][rewardDenom])
				}
				slack += int64(ref.NAlloc[k])
			}
			eps := big.NewRat(1, 1000)
			lo := ratSub(ratSub(E, ratI(slack)), eps)
			hi := ratAdd(E, eps)
			gr := new(big.Rat).SetInt(got)
			if E.Sign() > 0 {
				x.Cnt.Inc("claim.with_positive_entitlement")
			}
			if gr.Cmp(lo) < 0 || gr.Cmp(hi) > 0 {
				cause := ""
				for _, k := range claimed {
					if ref.Skew[k] != "" {
						cause = ref.Skew[k]
					}
				}
				if ref.Tainted {
					cause = "value-changed-since-accrual"
				}
				dir := "underpaid"
				if gr.Cmp(hi) > 0 {
					dir = "overpaid"
				}
				out = append(out, fail(oracle, cause, "%s: %s - paid %s %s, entitlement %s (positions %v, allowed [%s, %s])", x.Op.String(), dir, got, rewardDenom, world.RatF(E), claimed, world.RatF(lo), world.RatF(hi)))
			}
			for _, k := range claimed {
				delete(ref.E, k)
				delete(ref.NAlloc, k)
				delete(ref.Skew, k)
			}
		}
		// nobody else is paid by this transaction
		for d := range next.DelBal {
			if d == x.Op.D {
				continue
			}
			if !next.DelBal[d].AmountOf(rewardDenom).Equal(prev.DelBal[d].AmountOf(rewardDenom)) {
				out = append(out, fail(oracle, "bystander-paid", "%s: balance of d%d changed by %s %s", x.Op.String(), d, next.DelBal[d].AmountOf(rewardDenom).Sub(prev.DelBal[d].AmountOf(rewardDenom)), rewardDenom))
			}
		}
		if x.Op.K == world.KClaim {
			// stake-neutral: no position value changes; idempotent: an immediate second claim pays nothing
			for _, p := range prev.Pos {
				np, ok := next.FindPos(p.D, p.V, p.Denom)
				if !ok || np.Value.Cmp(p.Value) != 0 {
					out = append(out, fail(oracle, "claim-changed-stake", "%s changed the staked value of %s", x.Op.String(), p.Key()))
				}
			}
			r2 := w.Exec(x.Next.Ctx, x.Op)
			if r2.Err == nil {
				b1 := w.App.BankKeeper.GetBalance(r2.Ctx, w.Dels[x.Op.D], rewardDenom).Amount
				if !b1.Equal(next.DelBal[x.Op.D].AmountOf(rewardDenom)) {
					out = append(out, fail(oracle, "second-claim-paid", "%s: an immediate second claim paid %s", x.Op.String(), b1.Sub(next.DelBal[x.Op.D].AmountOf(rewardDenom))))
				}
				x.Cnt.Inc("claim.second_claim_probed")
			}
		}
		ref.poolFlow(prev, next, paid)
	default:
		ref.poolFlow(prev, next, nil)
	}
	ref.observePending(w, x.Next.Ctx)
	ref.markSkew(prev, next)
	return out
}

func c13Step(x *engine.Exec) []engine.Failure {
	if x.Res.Rejected {
		return nil
	}
	ref := x.Next.Ref.(*rewRef)
	prev := x.Prev.Snap()
	switch x.Op.K {
	case world.KClaim:
		if x.Prev.Used[ClsGov] > 0 {
			x.Cnt.Inc("claim.after_weight_change")
		}
	case world.KDelegate:
		if _, ok := prev.FindPos(x.Op.D, x.Op.V, x.Op.Denom); ok {
			x.Cnt.Inc("arrive.delegate_existing")
		} else {
			x.Cnt.Inc("arrive.delegate_new")
		}
	case world.KRedelegate, world.KRedelegateAll:
		if _, ok := prev.FindPos(x.Op.D, x.Op.V2, x.Op.Denom); ok {
			x.Cnt.Inc("arrive.redelegate_existing")
		} else {
			x.Cnt.Inc("arrive.redelegate_new")
		}
	}
	if x.Op.K != world.KReward {
		for v := range x.W.Vals {
			if m := ref.Pending[v]; m != nil && m[rewardDenom] != nil && m[rewardDenom].Sign() > 0 {
				x.Cnt.Inc("tx.with_rewards_pending_in_distribution")
				break
			}
		}
	}
	return rewardStep(x, ref, "entitlement")
}

func c13Config() world.Config {
	cfg := world.DefaultConfig()
	cfg.Assets = []world.AssetCfg{
		{Denom: "aaa", Weight: "1", Min: "0", Max: "5", TakeRate: "0"},
		{Denom: "bbb", Weight: "2", Min: "0", Max: "5", TakeRate: "0"},
	}
	return cfg
}

var c13Seed = []world.Op{
	opDel(0, 0, "aaa", "1000000"), opDel(1, 1, "aaa", "1000000"), opDel(1, 0, "bbb", "500000"), opDel(2, 1, "aaa", "250000"),
	opDel(2, 0, "aaa", "1"), // a dust position whose share of a reward truncates to zero
	opBlock(1),
}

// newcomerRef remembers the positions opened since the last reward allocation; nothing is payable to them until the
// next allocation ("rewards that accrued before a position existed are not payable to the new stake").
type newcomerRef struct {
	New         map[string]bool
	ViaUnbonded bool // some newcomer arrived while its validator was outside the active set with module rewards pending
}

func (r *newcomerRef) Clone() engine.Ref {
	n := &newcomerRef{New: map[string]bool{}, ViaUnbonded: r.ViaUnbonded}
	for k, v := range r.New {
		n.New[k] = v
	}
	return n
}

func (r *newcomerRef) Digest() []byte {
	return []byte(strings.Join(sortedKeys(r.New), ";") + fmt.Sprint(r.ViaUnbonded))
}

func c13NewcomerStep(x *engine.Exec) []engine.Failure {
	if x.Res.Rejected {
		return nil
	}
	ref := x.Next.Ref.(*newcomerRef)
	prev, next := x.Prev.Snap(), x.Next.Snap()
	w := x.W
	switch x.Op.K {
	case world.KReward:
		if !w.Cfg.FullPipeline {
			// module-only worlds allocate at once
			ref.New = map[string]bool{}
			ref.ViaUnbonded = false
		}
	case world.KBlock:
		if x.Res.Err != nil {
			return []engine.Failure{fail("endblock", "error", "block failed: %v", x.Res.Err)}
		}
		if !prev.Fee.IsZero() {
			// the BeginBlock half allocates what the fee collector held: from here on newcomers earn
			ref.New = map[string]bool{}
			ref.ViaUnbonded = false
		}
	case world.KDelegate, world.KRedelegate:
		v := x.Op.V
		if x.Op.K == world.KRedelegate {
			v = x.Op.V2
		}
		if _, had := prev.FindPos(x.Op.D, v, x.Op.Denom); !had {
			ref.New[world.Pos{D: x.Op.D, V: v, Denom: x.Op.Denom}.Key()] = true
			if val, err := w.App.StakingKeeper.GetValidator(x.Prev.Ctx, w.Vals[v]); err == nil && !val.IsBonded() {
				for _, amt := range modulePending(w, x.Prev.Ctx, v) {
					if amt.Cmp(ratI(1)) >= 0 {
						ref.ViaUnbonded = true
						x.Cnt.Inc("newcomer.arrived_on_non_bonded_validator_with_rewards_pending")
						break
					}
				}
			}
		}
	}
	var out []engine.Failure
	for _, p := range next.Pos {
		if !ref.New[p.Key()] || p.D < 0 || p.D >= len(w.Dels) {
			continue
		}
		r := w.Exec(x.Next.Ctx, world.Op{K: world.KClaim, D: p.D, V: p.V, Denom: p.Denom})
		x.Cnt.Inc("newcomer.probed")
		if ref.ViaUnbonded {
			if val, err := w.App.StakingKeeper.GetValidator(x.Next.Ctx, w.Vals[p.V]); err == nil && val.IsBonded() {
				x.Cnt.Inc("newcomer.probed_after_validator_rebonded")
			}
		}
		if r.Err != nil {
			out = append(out, fail("newcomer-claim", "error", "claim of the new position %s fails: %v", p.Key(), r.Err))
			continue
		}
		before := w.App.BankKeeper.GetBalance(x.Next.Ctx, w.Dels[p.D], rewardDenom).Amount
		after := w.App.BankKeeper.GetBalance(r.Ctx, w.Dels[p.D], rewardDenom).Amount
		if !after.Equal(before) {
			out = append(out, fail("not-retroactive", "", "after %s: position %s, opened after the last reward allocation, is paid %s %s", x.Op.String(), p.Key(), after.Sub(before), rewardDenom))
		}
	}
	return out
}

func init() {
	register(&Property{
		ID:    "C13",
		Title: "Reward entitlement: pro-rata, not retroactive, idempotent, stake-neutral",
		Scenarios: func(tier string) []*engine.Scenario {
			ops := func(n *engine.Node) []world.Op {
				var ops []world.Op
				s := n.Snap()
				if atBlockStart(n) {
					for _, a := range []string{"1000", "1000003"} {
						ops = append(ops, world.Op{K: world.KReward, Denom: rewardDenom, Amt: a, Class: ClsEnv})
					}
					// fees in a denom the validators were never rewarded in before (settled in the same withdrawal as the bond denom)
					ops = append(ops, world.Op{K: world.KReward, Denom: "uusd", Amt: "700001", Class: ClsEnv})
				}
				for _, p := range s.Pos {
					if p.D < 0 {
						continue
					}
					ops = append(ops, world.Op{K: world.KClaim, D: p.D, V: p.V, Denom: p.Denom, Class: ClsUser})
				}
				// every way new stake can arrive
				ops = append(ops,
					world.Op{K: world.KDelegate, D: 0, V: 0, Denom: "aaa", Amt: "500000", Class: ClsUser}, // existing position
					world.Op{K: world.KDelegate, D: 0, V: 1, Denom: "aaa", Amt: "500000", Class: ClsUser}, // new position next to incumbents
					world.Op{K: world.KDelegate, D: 2, V: 0, Denom: "bbb", Amt: "500000", Class: ClsUser}, // new position, other asset on shared validator
					world.Op{K: world.KRedelegate, D: 0, V: 0, V2: 1, Denom: "aaa", Amt: "400000", Class: ClsUser},
					world.Op{K: world.KRedelegate, D: 1, V: 1, V2: 0, Denom: "aaa", Amt: "400000", Class: ClsUser},
					world.Op{K: world.KRedelegate, D: 2, V: 1, V2: 2, Denom: "aaa", Amt: "100000", Class: ClsUser},
					world.Op{K: world.KUndelegate, D: 1, V: 1, Denom: "aaa", Amt: "300000", Class: ClsUser},
					world.Op{K: world.KDelegate, D: 2, V: 0, Denom: "aaa", Amt: "500000", Class: ClsUser}, // top-up of the dust position
				)
				ops = append(ops, world.Op{K: world.KBlock, Dt: int64(U), Class: ClsBlock})
				return ops
			}
			mk := func(name string, budgets []int, depth int) *engine.Scenario {
				return &engine.Scenario{
					Property: "C13", Name: name, Cfg: c13Config(), Stores: world.ModuleStores,
					// second seed: every validator already has a reward history in the bond denom (one allocation, claimed)
					Seeds: [][]world.Op{c13Seed, append(append([]world.Op{}, c13Seed...), opReward(rewardDenom, "1000003"),
						world.Op{K: world.KClaim, D: 0, V: 0, Denom: "aaa"}, world.Op{K: world.KClaim, D: 1, V: 0, Denom: "bbb"}, world.Op{K: world.KClaim, D: 1, V: 1, Denom: "aaa"}, opBlock(1))},
					ClassNames: classNames, Budgets: budgets, MaxDepth: depth,
					NewRef: func(w *world.World, root *engine.Node) engine.Ref { return newRewRef() },
					Ops:    ops, Step: c13Step, SeedStep: true,
					Required: []string{"reward.allocations", "claim.with_positive_entitlement", "arrive.delegate_new", "arrive.delegate_existing", "arrive.redelegate_new", "arrive.redelegate_existing", "tx.with_rewards_pending_in_distribution", "claim.second_claim_probed"},
				}
			}
			// full pipeline: the validator leaves and re-enters the active set (jailed without a slash) with rewards pending in
			// x/distribution; stake that arrives in between must not be paid anything of them
			jcfg := world.DefaultConfig()
			jcfg.FullPipeline = true
			jcfg.Assets = []world.AssetCfg{{Denom: "aaa", Weight: "1", Min: "0", Max: "5", TakeRate: "0"}}
			jailed := &engine.Scenario{
				Property: "C13", Name: "c13-validator-leaves-active-set", Cfg: jcfg, Stores: world.AllStores,
				Seeds:      [][]world.Op{{opDel(0, 0, "aaa", "1000000"), opDel(0, 1, "aaa", "1000000"), opBlock(1)}},
				ClassNames: classNames, Budgets: tierPick(tier, []int{1, 0, 3, 4, 0}, []int{2, 0, 4, 5, 0}), MaxDepth: tierPick(tier, 8, 10),
				NewRef: func(w *world.World, root *engine.Node) engine.Ref { return &newcomerRef{New: map[string]bool{}} },
				Ops: func(n *engine.Node) []world.Op {
					ops := []world.Op{
						{K: world.KDelegate, D: 1, V: 0, Denom: "aaa", Amt: "3000000", Class: ClsUser},
						{K: world.KRedelegate, D: 0, V: 1, V2: 0, Denom: "aaa", Amt: "500000", Class: ClsUser},
						{K: world.KJail, V: 0, Class: ClsEnv}, {K: world.KUnjail, V: 0, Class: ClsEnv},
						{K: world.KBlock, Dt: int64(U), Class: ClsBlock},
					}
					if atBlockStart(n) {
						ops = append(ops, world.Op{K: world.KReward, Denom: rewardDenom, Amt: "10000000", Class: ClsEnv})
					}
					return ops
				},
				Step: c13NewcomerStep, SeedStep: true,
				Required: []string{"newcomer.probed", "newcomer.arrived_on_non_bonded_validator_with_rewards_pending", "newcomer.probed_after_validator_rebonded"},
			}
			// "all weights": governance changes an asset's weight between allocations (every validator gets a weight-change
			// snapshot); the asset is staked on several validators with different reward indices per token
			wc := mk("c13-weight-change", tierPick(tier, []int{2, 0, 2, 2, 1}, []int{3, 0, 3, 3, 2}), tierPick(tier, 6, 8))
			// (second seed: the same stake with V0 and V1 swapped, so that whichever operator address sorts first, one seed has the
			// higher reward index per token on the validator that sorts last)
			swapped := []world.Op{opDel(0, 1, "aaa", "1000000"), opDel(1, 0, "aaa", "1000000"), opDel(1, 1, "bbb", "500000"), opDel(2, 0, "aaa", "250000"), opDel(2, 1, "aaa", "1"), opBlock(1)}
			wc.Seeds = [][]world.Op{append(append([]world.Op{}, c13Seed...), opReward(rewardDenom, "1000003"), opBlock(1)),
				append(swapped, opReward(rewardDenom, "1000003"), opBlock(1))}
			wc.Ops = func(n *engine.Node) []world.Op {
				var out []world.Op
				for _, o := range ops(n) {
					if o.K == world.KClaim || o.K == world.KBlock || (o.K == world.KReward && o.Denom == rewardDenom) {
						out = append(out, o)
					}
				}
				if a, ok := n.Snap().Assets["aaa"]; ok {
					for _, w := range []string{"2", "0.5"} {
						out = append(out, world.Op{K: world.KGovUpdate, Denom: "aaa", Class: ClsGov, Args: govArgs("authority", w, "0,5", a.TakeRate.String(), "1", 0, false)})
					}
				}
				return out
			}
			wc.Required = []string{"reward.allocations", "claim.with_positive_entitlement", "claim.after_weight_change"}
			// an asset that earned rewards is emptied, deleted and whitelisted again with a warm-up period (the validators keep its
			// old reward indices): a position opened during the new warm-up is paid nothing until rewards are allocated again
			rcfg := world.DefaultConfig()
			rcfg.RewardDelay = 2 * U
			rcfg.Assets = []world.AssetCfg{{Denom: "aaa", Weight: "1", Min: "0", Max: "5", TakeRate: "0"}, {Denom: "bbb", Weight: "1", Min: "0", Max: "5", TakeRate: "0"}}
			recreated := &engine.Scenario{
				Property: "C13", Name: "c13-recreated-asset", Cfg: rcfg, Stores: world.ModuleStores,
				Seeds: [][]world.Op{{opDel(0, 0, "aaa", "1000000"), opDel(1, 0, "bbb", "1000000"), opBlock(1), opReward(rewardDenom, "6000000"),
					{K: world.KClaim, D: 0, V: 0, Denom: "aaa"}, {K: world.KUndelegateAll, D: 0, V: 0, Denom: "aaa"},
					{K: world.KGovDelete, Denom: "aaa", Args: map[string]string{"signer": "authority"}},
					{K: world.KGovCreate, Denom: "aaa", Args: govArgs("authority", "1", "0,5", "0", "1", 0, false)}}},
				ClassNames: classNames, Budgets: tierPick(tier, []int{2, 0, 1, 3, 0}, []int{3, 0, 2, 4, 0}), MaxDepth: tierPick(tier, 5, 7),
				NewRef: func(w *world.World, root *engine.Node) engine.Ref { return &newcomerRef{New: map[string]bool{}} },
				Ops: func(n *engine.Node) []world.Op {
					ops := []world.Op{
						{K: world.KDelegate, D: 0, V: 0, Denom: "aaa", Amt: "1000000", Class: ClsUser},
						{K: world.KDelegate, D: 2, V: 0, Denom: "aaa", Amt: "500000", Class: ClsUser},
						{K: world.KBlock, Dt: int64(U), Class: ClsBlock}, {K: world.KBlock, Dt: int64(3 * U), Class: ClsBlock},
					}
					if atBlockStart(n) {
						ops = append(ops, world.Op{K: world.KReward, Denom: rewardDenom, Amt: "6000000", Class: ClsEnv})
					}
					return ops
				},
				Step: c13NewcomerStep,
				Required: []string{"newcomer.probed"},
			}
			if tier == "thorough" {
				return []*engine.Scenario{mk("c13-entitlement", []int{4, 0, 3, 2, 0}, 8), jailed, wc, recreated}
			}
			return []*engine.Scenario{jailed, wc, recreated, mk("c13-entitlement", []int{3, 0, 2, 2, 0}, 5)}
		},
		Assumptions: []string{
			"no value-changing events (take rates 0, no slashes): those are C12's; rewards in the bond denom; weights 1 (aaa) and 2 (bbb) on a shared validator; stakes of 2.5e5..1e6 base units so the 1e-18 index resolution is negligible",
			"reference: exact rationals; a reward is attributed when x/distribution allocates it (module rewards pending in x/distribution read before/after the allocation), split by rewardWeight x tokens-on-validator / asset-total and by position value; claim tolerance: paid in [E - 1 - #allocations since last claim, E]",
		},
	})
}
