package props

import (
	"math/big"

	"cosmossdk.io/math"

	"verifmc/engine"
	"verifmc/world"
)

// C04 position isolation: a user tx moves its amount on the actor's position(s) and nobody else's value.
func c04Step(x *engine.Exec) []engine.Failure {
	if x.Res.Rejected {
		return nil
	}
	switch x.Op.K {
	case world.KDelegate, world.KUndelegate, world.KUndelegateAll, world.KRedelegate, world.KRedelegateAll, world.KClaim:
	default:
		return nil
	}
	prev, next := x.Prev.Snap(), x.Next.Snap()
	var out []engine.Failure
	amt := world.RatInt(x.Res.Amount)
	expect := map[string]*big.Rat{}
	key := func(d, v int, den string) string { return world.Pos{D: d, V: v, Denom: den}.Key() }
	switch x.Op.K {
	case world.KDelegate:
		expect[key(x.Op.D, x.Op.V, x.Op.Denom)] = amt
	case world.KUndelegate, world.KUndelegateAll:
		expect[key(x.Op.D, x.Op.V, x.Op.Denom)] = new(big.Rat).Neg(amt)
	case world.KRedelegate, world.KRedelegateAll:
		expect[key(x.Op.D, x.Op.V, x.Op.Denom)] = new(big.Rat).Neg(amt)
		expect[key(x.Op.D, x.Op.V2, x.Op.Denom)] = amt
	}
	den := x.Op.Denom
	a := prev.Assets[den]
	T := world.RatInt(math.MaxInt(a.TotalTokens, next.Assets[den].TotalTokens))
	tl := tol(T)
	pm, nm := prev.PosMap(), next.PosMap()
	keys := map[string]bool{}
	for k := range pm {
		keys[k] = true
	}
	for k := range nm {
		keys[k] = true
	}
	x.Cnt.Inc("tx.checked." + x.Op.K)
	if a.TotalValidatorShares.IsPositive() && !world.Rat(a.TotalValidatorShares).IsInt() || (a.TotalTokens.IsPositive() && world.Rat(a.TotalValidatorShares).Cmp(world.RatInt(a.TotalTokens)) != 0) {
		x.Cnt.Inc("tx.at_share_price_not_1")
	}
	for _, k := range sortedKeysBool(keys) {
		pv, nv := new(big.Rat), new(big.Rat)
		var pp world.Pos
		if p, ok := pm[k]; ok {
			pv, pp = p.Value, p
		} else {
			pp = nm[k]
		}
		if p, ok := nm[k]; ok {
			nv = p.Value
		}
		if pp.Denom != den && x.Op.K != world.KClaim {
			// other assets: must not move at all
			if pv.Cmp(nv) != 0 {
				out = append(out, fail("isolation", "other-asset-moved", "%s: position %s of another asset changed %s -> %s", x.Op.String(), k, world.RatF(pv), world.RatF(nv)))
			}
			continue
		}
		delta := ratSub(nv, pv)
		want := expect[k]
		isActor := want != nil
		if want == nil {
			want = new(big.Rat)
		}
		if x.Op.K == world.KClaim {
			if delta.Sign() != 0 {
				out = append(out, fail("isolation", "claim-changed-stake", "%s: position %s changed by %s", x.Op.String(), k, world.RatF(delta)))
			}
			continue
		}
		if absRat(ratSub(delta, want)).Cmp(tl) > 0 {
			who := "bystander"
			if isActor {
				who = "actor"
			}
			out = append(out, fail("isolation", c04Classify(x, prev, next, pp, isActor, delta, want), "%s: %s position %s value %s -> %s (delta %s, expected %s, tolerance %s)", x.Op.String(), who, k, world.RatF(pv), world.RatF(nv), world.RatF(delta), world.RatF(want), world.RatF(tl)))
		}
	}
	// round trip: what a fresh delegation reports must not exceed what was put in
	if x.Op.K == world.KDelegate {
		before := math.ZeroInt()
		if p, ok := pm[key(x.Op.D, x.Op.V, den)]; ok {
			before = p.Reported
		}
		after := nm[key(x.Op.D, x.Op.V, den)].Reported
		if after.IsNil() {
			after = math.ZeroInt()
		}
		// strict for ordinary magnitudes; at >= 1e17 base units the 18-digit fixed-point share price carries a relative
		// error the property explicitly allows (1e-17 * T, zero below 1e17)
		slackInt := math.NewIntFromBigInt(world.Floor(ratMul(e17inv, T)))
		if after.Sub(before).GT(x.Res.Amount.Add(slackInt)) {
			pp := nm[key(x.Op.D, x.Op.V, den)]
			out = append(out, fail("round-trip", c04Classify(x, prev, next, pp, true, world.RatInt(after.Sub(before)), amt), "%s: reported balance grew by %s for a deposit of %s", x.Op.String(), after.Sub(before), x.Res.Amount))
		}
	}
	// sum of reported values <= staked total + one unit per position
	for _, d := range next.Denoms {
		sum := math.ZeroInt()
		n := int64(0)
		for _, p := range next.Pos {
			if p.Denom == d {
				sum = sum.Add(p.Reported)
				n++
			}
		}
		if sum.GT(next.Assets[d].TotalTokens.AddRaw(n)) {
			out = append(out, fail("reported-sum", c04SumClassify(next, d), "%s: reported values of %s sum to %s > staked total %s + %d positions", x.Op.String(), d, sum, next.Assets[d].TotalTokens, n))
		}
	}
	return out
}

func sortedKeysBool(m map[string]bool) []string {
	ks := make([]string, 0, len(m))
	for k := range m {
		ks = append(ks, k)
	}
	sortStrings(ks)
	return ks
}

// c04Classify ties an out-of-tolerance value movement to one of the dust-scale call sites (DESIGN §4 C04); "" = unexplained.
func c04Classify(x *engine.Exec, prev, next *world.Snap, p world.Pos, isActor bool, delta, want *big.Rat) string {
	den := x.Op.Denom
	one := ratI(1)
	// (iv) every share of the asset was slashed away (100% slash of all validators holding it) while the staked total
	// stayed positive: the module prices any position at the whole total, the next depositor owns it
	if a := prev.Assets[den]; a.TotalValidatorShares.IsZero() && a.TotalTokens.IsPositive() && historyHasSlash(x, -1, true) {
		return "asset-fully-slashed-total-without-shares"
	}
	// validator the share issuance / removal happened on
	check := func(v int) string {
		vs := prev.Vals[v]
		D := vs.DelShares[den]
		if D == nil {
			D = new(big.Rat)
		}
		sv := vs.ValShares[den]
		if sv == nil {
			sv = new(big.Rat)
		}
		switch {
		case D.Sign() > 0 && D.Cmp(one) < 0:
			// (i) GetDelegationSharesFromTokens issues shares 1:1 whenever the validator's delegator shares truncate to 0
			return "shares-issued-1to1-below-one-delegator-share"
		case D.Sign() == 0 && sv.Sign() > 0:
			// (ii) validator shares without any delegator: the next delegator owns them
			return "orphan-validator-shares-captured"
		}
		return ""
	}
	switch x.Op.K {
	case world.KDelegate:
		if c := check(x.Op.V); c != "" {
			return c
		}
	case world.KRedelegate, world.KRedelegateAll:
		if c := check(x.Op.V2); c != "" {
			return c
		}
		if c := check(x.Op.V); c != "" {
			return c
		}
	case world.KUndelegate, world.KUndelegateAll:
		if c := check(x.Op.V); c != "" {
			return c
		}
	}
	// (iii) Rounder window measured in shares: more than 100 tokens per delegator share on the source validator
	if x.Op.K == world.KUndelegate || x.Op.K == world.KUndelegateAll || x.Op.K == world.KRedelegate || x.Op.K == world.KRedelegateAll {
		vs := prev.Vals[x.Op.V]
		D, vt := vs.DelShares[den], vs.Tokens[den]
		if D != nil && vt != nil && D.Sign() > 0 && ratQuo(vt, D).Cmp(ratI(100)) > 0 {
			return "rounder-window-in-shares-at-over-100-tokens-per-share"
		}
	}
	return ""
}

func c04SumClassify(s *world.Snap, den string) string {
	for _, vs := range s.Vals {
		D := vs.DelShares[den]
		if D != nil && D.Sign() > 0 && D.Cmp(ratI(1)) < 0 {
			return "shares-issued-1to1-below-one-delegator-share"
		}
	}
	return ""
}

func init() {
	register(&Property{
		ID:    "C04",
		Title: "Position isolation",
		Scenarios: func(tier string) []*engine.Scenario {
			al := Alpha{
				Dels: []int{0, 1}, Vals: []int{0, 1}, Denoms: []string{"aaa"},
				DelAmts: []string{"1", "3", "1000"}, UndAmts: []string{"1", "3"}, UndAll: true,
				RedAmts: []string{"1", "3"}, RedAll: true, Claim: true,
				SlashVals: []int{0, 1}, SlashF: []string{"0.333333333333333333", "0.5", "1"}, BlockDts: dts(3),
			}
			alAll := al
			alAll.Extra = func(n *engine.Node) []world.Op {
				var ops []world.Op
				for _, p := range n.Snap().Pos {
					if p.D < 0 || p.D > 1 || p.Denom != "aaa" {
						continue
					}
					ops = append(ops, world.Op{K: world.KUndelegateAll, D: p.D, V: p.V, Denom: "aaa", Args: map[string]string{"plus": "1"}, Class: ClsUser})
					ops = append(ops, world.Op{K: world.KUndelegateAll, D: p.D, V: p.V, Denom: "aaa", Args: map[string]string{"plus": "-1"}, Class: ClsUser})
					if p.Reported.GT(mi("100000")) {
						// large positions: leave a remainder of a few units behind (relative windows must not swallow it)
						ops = append(ops, world.Op{K: world.KUndelegateAll, D: p.D, V: p.V, Denom: "aaa", Args: map[string]string{"plus": "-7"}, Class: ClsUser})
						ops = append(ops, world.Op{K: world.KRedelegateAll, D: p.D, V: p.V, V2: 1 - p.V, Denom: "aaa", Args: map[string]string{"plus": "-5"}, Class: ClsUser})
					}
				}
				return ops
			}
			mag := Alpha{
				Dels: []int{0, 1}, Vals: []int{0, 1}, Denoms: []string{"aaa"},
				DelAmts: []string{"1", big30}, UndAmts: []string{"1", "999999999999999999999999999999"}, UndAll: true,
				RedAmts: []string{"1"}, RedAll: true, Claim: true,
			}
			// seeds with share price != 1 reached through real take-rate steps and slashes
			s1 := []world.Op{opDel(0, 0, "aaa", "10"), opDel(1, 0, "aaa", "7"), opDel(1, 1, "aaa", "3"), opBlock(3), opBlock(1)}
			s2 := append(append([]world.Op{}, s1...), opSlash(0, "0.333333333333333333"))
			s3 := []world.Op{opDel(0, 0, "aaa", "1000"), opDel(1, 1, "aaa", "1000"), opBlock(7), opBlock(1), opSlash(1, "0.5"), opBlock(3), opBlock(1)}
			s4 := []world.Op{opDel(0, 0, "aaa", big30), opDel(1, 1, "aaa", "3"), opBlock(3), opBlock(1), opSlash(0, "0.333333333333333333")}
			s5 := []world.Op{opDel(0, 0, "aaa", "3"), opDel(1, 1, "aaa", big30), opBlock(3), opBlock(1)}
			// medium magnitude (1e7): tolerance is still 1 unit, positions large enough for relative effects
			s6 := []world.Op{opDel(0, 0, "aaa", "10000000"), opDel(1, 0, "aaa", "10000000"), opDel(1, 1, "aaa", "3000000"), opBlock(3), opBlock(1)}
			mk := func(name string, al Alpha, seeds [][]world.Op, budgets []int, depth int) *engine.Scenario {
				return &engine.Scenario{
					Property: "C04", Name: name, Cfg: world.DefaultConfig(), Stores: world.ModuleStores,
					Seeds: seeds, ClassNames: classNames, Budgets: budgets, MaxDepth: depth,
					Ops: al.Ops, Step: c04Step,
					Required: []string{"tx.at_share_price_not_1", "tx.checked.delegate", "tx.checked.undelegate", "tx.checked.redelegate", "tx.checked.claim"},
				}
			}
			// an asset that is still warming up: it is staked, slashed and moved like any other (share price != 1 after a slash)
			wcfg := world.DefaultConfig()
			wcfg.Assets = append(wcfg.Assets, world.AssetCfg{Denom: "ccc", Weight: "1", Min: "0", Max: "5", TakeRate: "0", StartOffset: 1000 * U})
			wcfg.DelFunds["ccc"] = "1000000000000"
			walpha := al
			walpha.Denoms = []string{"ccc"}
			walpha.Claim = false
			warm := func(budgets []int, depth int) *engine.Scenario {
				sc := mk("c04-warmup-asset", walpha, [][]world.Op{
					{opDel(0, 0, "ccc", "10"), opDel(1, 0, "ccc", "7"), opDel(1, 1, "ccc", "3"), opSlash(0, "0.333333333333333333")},
					{opDel(0, 0, "ccc", "10000000"), opDel(1, 1, "ccc", "3000000"), opSlash(1, "0.5")},
				}, budgets, depth)
				sc.Cfg = wcfg
				sc.Required = []string{"tx.at_share_price_not_1", "tx.checked.delegate", "tx.checked.undelegate", "tx.checked.redelegate"}
				return sc
			}
			if tier == "thorough" {
				return []*engine.Scenario{
					mk("c04-small", alAll, [][]world.Op{s1, s2, s3, nil, s6}, []int{5, 1, 0, 1, 0}, 6),
					mk("c04-magnitude", mag, [][]world.Op{s4, s5}, []int{5, 0, 0, 0, 0}, 5),
					warm([]int{4, 1, 0, 1, 0}, 5),
				}
			}
			return []*engine.Scenario{
				warm([]int{2, 1, 0, 0, 0}, 3),
				mk("c04-small", alAll, [][]world.Op{s1, s2, s3, nil, s6}, []int{3, 1, 0, 1, 0}, 3),
				mk("c04-magnitude", mag, [][]world.Op{s4, s5}, []int{4, 0, 0, 0, 0}, 4),
			}
		},
		Assumptions: []string{
			"seeds reach share prices 0.7, 0.7*2/3-ish, 0.3^k*0.5 through real take-rate deductions (rate 0.3) and slashes before the user transactions under test",
			"tolerance tol(T)=1+1e-17*T base units on exact rational values recomputed from the stored shares",
		},
	})
}
