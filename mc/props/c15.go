package props

import (
	"strings"

	"verifmc/engine"
	"verifmc/world"
)

const transitiveMsg = "redelegation to this validator already in progress"

func c15Step(x *engine.Exec) []engine.Failure {
	ref := x.Next.Ref.(*pendRef)
	prev := x.Prev.Snap()
	var out []engine.Failure
	isRed := x.Op.K == world.KRedelegate || x.Op.K == world.KRedelegateAll
	if isRed {
		// is an entry of this delegator INTO the source validator still pending for this denom?
		pendingInto := false
		for _, r := range ref.Red {
			if r.D == x.Op.D && r.Dst == x.Op.V && r.Denom == x.Op.Denom {
				pendingInto = true
			}
		}
		if pendingInto {
			x.Cnt.Inc("redelegate.attempt_out_of_pending_destination")
			if x.Prev.Used[ClsSlash] > 0 {
				x.Cnt.Inc("redelegate.attempt_out_of_pending_destination_after_slash")
			}
			if !x.Res.Rejected {
				out = append(out, fail("onward-hop", "allowed-while-pending", "%s succeeded although a redelegation of d%d into v%d (%s) is still pending", x.Op.String(), x.Op.D, x.Op.V, x.Op.Denom))
			}
		} else if x.Res.Rejected {
			if strings.Contains(x.Res.Err.Error(), transitiveMsg) {
				out = append(out, fail("onward-hop", "blocked-without-pending-entry", "%s rejected as transitive although no redelegation of d%d into v%d (%s) is pending", x.Op.String(), x.Op.D, x.Op.V, x.Op.Denom))
			} else if p, ok := prev.FindPos(x.Op.D, x.Op.V, x.Op.Denom); ok && x.Res.Amount.IsPositive() && x.Res.Amount.LT(p.Reported) {
				cause := "rejected-with-sufficient-balance"
				if D := prev.Vals[x.Op.V].DelShares[x.Op.Denom]; D != nil && D.Sign() > 0 && D.Cmp(ratI(1)) < 0 && strings.Contains(x.Res.Err.Error(), "insufficient delegation shares") {
					// K-C05-below-one-delegator-share seen from a redelegation: tokens are priced 1:1 in shares on such a validator
					cause = "move-out-of-validator-below-one-delegator-share"
				}
				out = append(out, fail("onward-hop", cause, "%s rejected (%v) with reported balance %s and nothing pending into the source", x.Op.String(), x.Res.Err, p.Reported))
			} else {
				x.Cnt.Inc("redelegate.rejected_for_balance")
			}
		}
	}
	if x.Res.Rejected {
		return out
	}
	next := x.Next.Snap()
	if x.Op.K == world.KSlash {
		for _, r := range ref.Red {
			if r.Src != x.Op.V || r.C < prev.Time.UnixNano() {
				continue
			}
			x.Cnt.Inc("slash.source_of_pending_entry")
			_, had := prev.FindPos(r.D, r.Dst, r.Denom)
			if _, has := next.FindPos(r.D, r.Dst, r.Denom); had && !has {
				x.Cnt.Inc("slash.wiped_destination_of_pending_entry")
			}
		}
	}
	switch {
	case isRed:
		x.Cnt.Inc("redelegate.ok")
		if x.W.Cfg.FullPipeline {
			if val, err := x.W.App.StakingKeeper.GetValidator(x.Prev.Ctx, x.W.Vals[x.Op.V]); err == nil && !val.IsBonded() {
				x.Cnt.Inc("redelegate.source_not_bonded")
			}
		}
		ref.onRedelegate(x)
		n := ref.Red[len(ref.Red)-1]
		for _, r := range ref.Red[:len(ref.Red)-1] {
			if r.D == n.D && r.Denom == n.Denom && r.Dst == n.Dst && r.C == n.C {
				if r.Src != n.Src {
					x.Cnt.Inc("redelegate.fan_in_same_block")
				} else {
					x.Cnt.Inc("redelegate.repeated_same_pair_same_block")
				}
			}
			if r.D == n.D && r.Denom == n.Denom && r.Dst == n.Src {
				x.Cnt.Inc("redelegate.chain_after_maturity_of_inbound?")
			}
		}
		amt := world.RatInt(x.Res.Amount)
		T := world.RatInt(prev.Assets[x.Op.Denom].TotalTokens)
		tl := tol(T)
		get := func(s *world.Snap, v int) *bigRat {
			if p, ok := s.FindPos(x.Op.D, v, x.Op.Denom); ok {
				return p.Value
			}
			return newRat()
		}
		dSrc := ratSub(get(next, x.Op.V), get(prev, x.Op.V))
		dDst := ratSub(get(next, x.Op.V2), get(prev, x.Op.V2))
		if absRat(ratAdd(dSrc, amt)).Cmp(tl) > 0 {
			out = append(out, fail("move", "source-delta", "%s: source position moved by %s, expected -%s", x.Op.String(), world.RatF(dSrc), x.Res.Amount))
		}
		if absRat(ratSub(dDst, amt)).Cmp(tl) > 0 {
			cause := "destination-delta"
			if c := c15Unowned(prev, x.Op.V2, x.Op.Denom); c != "" && x.Prev.Used[ClsSlash] > 0 {
				cause = c
			}
			out = append(out, fail("move", cause, "%s: destination position moved by %s, expected +%s", x.Op.String(), world.RatF(dDst), x.Res.Amount))
		}
		for _, den := range prev.Denoms {
			if !prev.Assets[den].TotalTokens.Equal(next.Assets[den].TotalTokens) {
				out = append(out, fail("move", "total-changed", "%s: staked total of %s changed %s -> %s", x.Op.String(), den, prev.Assets[den].TotalTokens, next.Assets[den].TotalTokens))
			}
		}
		if !prev.Custody.Equal(next.Custody) {
			out = append(out, fail("move", "custody-changed", "%s: custody %s -> %s", x.Op.String(), prev.Custody, next.Custody))
		}
		for d := range prev.DelBal {
			if !prev.DelBal[d].Equal(next.DelBal[d]) {
				out = append(out, fail("move", "paid-out", "%s: balance of d%d changed %s -> %s", x.Op.String(), d, prev.DelBal[d], next.DelBal[d]))
			}
		}
		// other delegators' positions untouched (within tolerance)
		for _, p := range prev.Pos {
			if p.D == x.Op.D && p.Denom == x.Op.Denom && (p.V == x.Op.V || p.V == x.Op.V2) {
				continue
			}
			np, ok := next.FindPos(p.D, p.V, p.Denom)
			nv := newRat()
			if ok {
				nv = np.Value
			}
			if absRat(ratSub(nv, p.Value)).Cmp(tl) > 0 {
				out = append(out, fail("move", "bystander-moved", "%s: position %s moved %s -> %s", x.Op.String(), p.Key(), world.RatF(p.Value), world.RatF(nv)))
			}
		}
	case x.Op.K == world.KBlock:
		if x.Res.Err != nil {
			out = append(out, fail("endblock", "error", "EndBlocker failed: %v", x.Res.Err))
		}
		before := len(ref.Red)
		atBoundary := 0
		for _, r := range ref.Red {
			if r.C == prev.Time.UnixNano() {
				atBoundary++
			}
		}
		ref.onEndBlock(prev.Time)
		if len(ref.Red) < before {
			x.Cnt.Inc("endblock.matured_redelegation")
			if len(prev.Denoms) == 0 {
				x.Cnt.Inc("endblock.matured_redelegation_without_any_asset")
			}
		}
		if atBoundary > 0 {
			x.Cnt.Inc("endblock.entry_exactly_at_completion_instant")
		}
	}
	out = append(out, compareRed(next, ref, "bookkeeping")...)
	return out
}

// c15Unowned recognises a destination validator that holds value nobody owns: its validator shares of the asset are
// worth tokens while no delegation (or less than one delegator share) stands against them. slashRedelegations leaves
// such value behind when it burns the delegator shares of a destination without touching the validator's shares or
// the asset totals (K-C07-redelegation-slash-dilution); whoever delegates or redelegates there next is priced
// against it (first delegator: shares 1:1 but all of the validator's tokens; below one share: 1:1 issuance).
func c15Unowned(s *world.Snap, v int, denom string) string {
	tok := s.Vals[v].Tokens[denom]
	if tok == nil || tok.Sign() <= 0 {
		return ""
	}
	D := s.Vals[v].DelShares[denom]
	if D == nil || D.Cmp(ratI(1)) < 0 {
		return "destination-validator-holds-value-left-by-redelegation-slash"
	}
	return ""
}

func init() {
	seed := []world.Op{opDel(0, 0, "aaa", "1000"), opDel(0, 1, "aaa", "1000"), opDel(0, 2, "aaa", "1000"), opDel(1, 0, "aaa", "1000"), opDel(0, 0, "bbb", "50")}
	register(&Property{
		ID:    "C15",
		Title: "Redelegation: value-preserving move, onward hop blocked until maturity",
		Scenarios: func(tier string) []*engine.Scenario {
			ops := func(n *engine.Node) []world.Op {
				var ops []world.Op
				s := n.Snap()
				for _, a := range [][2]int{{0, 1}, {1, 2}, {2, 0}, {1, 0}, {0, 2}, {2, 1}} {
					if _, ok := s.FindPos(0, a[0], "aaa"); !ok && tier != "thorough" {
						continue
					}
					ops = append(ops, world.Op{K: world.KRedelegate, D: 0, V: a[0], V2: a[1], Denom: "aaa", Amt: "7", Class: ClsUser})
				}
				for _, a := range [][2]int{{0, 1}, {1, 2}} {
					ops = append(ops, world.Op{K: world.KRedelegateAll, D: 0, V: a[0], V2: a[1], Denom: "aaa", Class: ClsUser})
					ops = append(ops, world.Op{K: world.KRedelegateAll, D: 0, V: a[0], V2: a[1], Denom: "aaa", Args: map[string]string{"plus": "1"}, Class: ClsUser})
					ops = append(ops, world.Op{K: world.KRedelegateAll, D: 0, V: a[0], V2: a[1], Denom: "aaa", Args: map[string]string{"plus": "-1"}, Class: ClsUser})
				}
				ops = append(ops, world.Op{K: world.KRedelegate, D: 1, V: 0, V2: 1, Denom: "aaa", Amt: "2", Class: ClsUser})
				ops = append(ops, world.Op{K: world.KRedelegate, D: 0, V: 0, V2: 1, Denom: "bbb", Amt: "2", Class: ClsUser})
				ops = append(ops, world.Op{K: world.KRedelegate, D: 0, V: 1, V2: 2, Denom: "bbb", Amt: "2", Class: ClsUser})
				for _, dt := range dts(1, 2, 3, 7) {
					ops = append(ops, world.Op{K: world.KBlock, Dt: int64(dt), Class: ClsBlock})
				}
				return ops
			}
			mk := func(name string, budgets []int, depth int) *engine.Scenario {
				return &engine.Scenario{
					Property: "C15", Name: name, Cfg: c07Config(), Stores: world.ModuleStores,
					Seeds: [][]world.Op{seed}, ClassNames: classNames, Budgets: budgets, MaxDepth: depth,
					NewRef: func(w *world.World, root *engine.Node) engine.Ref { return newPendRef() },
					Ops:    ops, Step: c15Step, SeedStep: true,
					Required: []string{"redelegate.ok", "redelegate.attempt_out_of_pending_destination", "redelegate.fan_in_same_block", "redelegate.repeated_same_pair_same_block", "endblock.matured_redelegation", "endblock.entry_exactly_at_completion_instant", "redelegate.rejected_for_balance"},
				}
			}
			// the pending entry while its source is slashed: D0 is the only holder on V0 and moves everything to V1, takes most
			// of it out of V1 again, then V0 is slashed so hard that the capped cut wipes what is left on V1; the entry and the
			// onward-hop restriction must survive until maturity, also for fresh stake put on V1 afterwards
			slashedOps := func(n *engine.Node) []world.Op {
				ops := Alpha{Dels: []int{0}, Vals: []int{1}, Denoms: []string{"aaa"}, DelAmts: []string{"5"}, UndAmts: []string{"9", "4"},
					SlashVals: []int{0}, SlashF: []string{"0.5", "1"}, BlockDts: dts(1, 3, 4)}.Ops(n)
				ops = append(ops, world.Op{K: world.KRedelegateAll, D: 0, V: 0, V2: 1, Denom: "aaa", Class: ClsUser})
				ops = append(ops, world.Op{K: world.KRedelegate, D: 0, V: 0, V2: 1, Denom: "aaa", Amt: "6", Class: ClsUser})
				ops = append(ops, world.Op{K: world.KRedelegate, D: 0, V: 1, V2: 2, Denom: "aaa", Amt: "3", Class: ClsUser})
				ops = append(ops, world.Op{K: world.KRedelegate, D: 1, V: 1, V2: 2, Denom: "aaa", Amt: "3", Class: ClsUser})
				return ops
			}
			mkSlashed := func(budgets []int, depth int) *engine.Scenario {
				sc := mk("c15-slashed-source", budgets, depth)
				sc.Seeds = [][]world.Op{{opDel(0, 0, "aaa", "10"), opDel(1, 2, "aaa", "1000")}, {opDel(0, 0, "aaa", "10"), opDel(1, 1, "aaa", "7"), opDel(1, 2, "aaa", "1000")}}
				sc.Ops = slashedOps
				sc.Required = []string{"redelegate.ok", "redelegate.attempt_out_of_pending_destination", "slash.source_of_pending_entry", "slash.wiped_destination_of_pending_entry", "redelegate.attempt_out_of_pending_destination_after_slash", "endblock.matured_redelegation"}
				return sc
			}
			// full pipeline: the source (or destination) validator has left the active set - jailed, unbonding, unbonded - when the
			// redelegation is made; the pending period is the staking unbonding period all the same
			left := func(budgets []int, depth int) *engine.Scenario {
				sc := mk("c15-validator-left-active-set", budgets, depth)
				cfg := c07Config()
				cfg.FullPipeline = true
				sc.Cfg, sc.Stores = cfg, world.AllStores
				sc.Seeds = [][]world.Op{{opDel(0, 0, "aaa", "1000"), opDel(0, 1, "aaa", "1000"), opDel(1, 0, "aaa", "500"), opBlock(1)}}
				sc.Ops = func(n *engine.Node) []world.Op {
					return []world.Op{
						{K: world.KRedelegate, D: 0, V: 0, V2: 1, Denom: "aaa", Amt: "7", Class: ClsUser},
						{K: world.KRedelegate, D: 0, V: 1, V2: 2, Denom: "aaa", Amt: "3", Class: ClsUser},
						{K: world.KRedelegate, D: 0, V: 1, V2: 0, Denom: "aaa", Amt: "5", Class: ClsUser},
						{K: world.KJail, V: 0, Class: ClsEnv}, {K: world.KUnjail, V: 0, Class: ClsEnv},
						{K: world.KBlock, Dt: int64(U), Class: ClsBlock}, {K: world.KBlock, Dt: int64(3 * U), Class: ClsBlock},
					}
				}
				sc.Required = []string{"redelegate.ok", "redelegate.attempt_out_of_pending_destination", "redelegate.source_not_bonded", "endblock.matured_redelegation"}
				return sc
			}
			// the only alliance asset is emptied and deleted by governance while a redelegation of it is pending (and possibly
			// whitelisted again later): the entry still matures on schedule and the hop restriction is lifted on schedule
			deleted := func(budgets []int, depth int) *engine.Scenario {
				sc := mk("c15-last-asset-deleted", budgets, depth)
				cfg := world.DefaultConfig()
				cfg.Assets = []world.AssetCfg{{Denom: "aaa", Weight: "1", Min: "0", Max: "5", TakeRate: "0"}}
				cfg.ExtraDenoms = []string{"aaa"}
				sc.Cfg = cfg
				sc.Seeds = [][]world.Op{{opDel(0, 0, "aaa", "1000"), opRed(0, 0, 1, "aaa", "400")}}
				sc.Ops = func(n *engine.Node) []world.Op {
					var ops []world.Op
					s := n.Snap()
					for _, p := range s.Pos {
						ops = append(ops, world.Op{K: world.KUndelegateAll, D: p.D, V: p.V, Denom: "aaa", Class: ClsUser})
					}
					if a, ok := s.Assets["aaa"]; ok && a.TotalTokens.IsZero() {
						ops = append(ops, world.Op{K: world.KGovDelete, Denom: "aaa", Class: ClsGov, Args: map[string]string{"signer": "authority"}})
					}
					if _, ok := s.Assets["aaa"]; !ok {
						ops = append(ops, world.Op{K: world.KGovCreate, Denom: "aaa", Class: ClsGov, Args: govArgs("authority", "1", "0,5", "0", "1", 0, false)})
					} else {
						ops = append(ops, world.Op{K: world.KDelegate, D: 0, V: 1, Denom: "aaa", Amt: "50", Class: ClsUser})
						ops = append(ops, world.Op{K: world.KRedelegate, D: 0, V: 1, V2: 2, Denom: "aaa", Amt: "20", Class: ClsUser})
					}
					for _, dt := range dts(1, 3) {
						ops = append(ops, world.Op{K: world.KBlock, Dt: int64(dt), Class: ClsBlock})
					}
					return ops
				}
				sc.Required = []string{"redelegate.attempt_out_of_pending_destination", "endblock.matured_redelegation", "endblock.matured_redelegation_without_any_asset"}
				return sc
			}
			if tier == "thorough" {
				return []*engine.Scenario{mk("c15-redelegation", []int{4, 0, 0, 4, 0}, 8), mkSlashed([]int{5, 2, 0, 3, 0}, 9), left([]int{3, 0, 2, 5, 0}, 9), deleted([]int{4, 0, 0, 4, 2}, 9)}
			}
			return []*engine.Scenario{mk("c15-redelegation", []int{3, 0, 0, 3, 0}, 5), mkSlashed([]int{4, 1, 0, 2, 0}, 6), left([]int{2, 0, 2, 4, 0}, 7), deleted([]int{4, 0, 0, 3, 2}, 8)}
		},
		Assumptions: []string{
			"seed: D0 on V0,V1,V2 (aaa) and V0 (bbb), D1 on V0; unbonding period 3u; block steps 1u/2u/3u/7u; no reward inflow, so a redelegation's implicit claims pay nothing",
			"primary records are compared per (delegator, denom, destination, completion) with summed balance because the record key has no source (see K-C07-merged-redelegation-record); the source index and the completion queue are compared per entry",
		},
	})
}
