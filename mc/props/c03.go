package props

import (
	"math/big"
	"strings"

	"github.com/terra-money/alliance/x/alliance"

	"verifmc/engine"
	"verifmc/world"
)

// ledgerCheck is the C03 oracle on one state: an independent recomputation from the raw primary records.
func ledgerCheck(s *world.Snap) []engine.Failure {
	var out []engine.Failure
	zero := new(big.Rat)
	// (1) per validator and denom: sum of delegation shares == recorded delegator-share total
	type vd struct {
		v int
		d string
	}
	sums := map[vd]*big.Rat{}
	for _, p := range s.Pos {
		if p.Shares.Sign() < 0 {
			out = append(out, fail("ledger", "negative-delegation-shares", "%s has negative shares %s", p.Key(), world.RatF(p.Shares)))
		}
		k := vd{p.V, p.Denom}
		if sums[k] == nil {
			sums[k] = new(big.Rat)
		}
		sums[k].Add(sums[k], p.Shares)
	}
	for v, vs := range s.Vals {
		for d, tot := range vs.DelShares {
			if tot.Sign() < 0 {
				out = append(out, fail("ledger", "negative-delegator-total", "v%d %s TotalDelegatorShares=%s", v, d, world.RatF(tot)))
			}
			sum := sums[vd{v, d}]
			if sum == nil {
				sum = zero
			}
			if sum.Cmp(tot) != 0 {
				cause := "delegator-share-sum"
				if sum.Sign() == 0 {
					cause = "delegator-share-total-without-delegations"
				}
				out = append(out, fail("ledger", cause, "v%d %s: sum of delegation shares %s != TotalDelegatorShares %s", v, d, sum.FloatString(18), tot.FloatString(18)))
			}
		}
		for d, sh := range vs.ValShares {
			if sh.Sign() < 0 {
				out = append(out, fail("ledger", "negative-validator-shares", "v%d %s ValidatorShares=%s", v, d, world.RatF(sh)))
			}
		}
	}
	for k, sum := range sums {
		if k.v < 0 {
			continue
		}
		if _, ok := s.Vals[k.v].DelShares[k.d]; !ok && sum.Sign() != 0 {
			out = append(out, fail("ledger", "delegator-share-sum", "v%d %s: delegations hold %s shares but the validator records none", k.v, k.d, sum.FloatString(18)))
		}
	}
	// (2) per asset: sum of validator shares == TotalValidatorShares; reset at zero stake
	for _, den := range s.Denoms {
		a := s.Assets[den]
		sum := new(big.Rat)
		holders := 0
		for _, vs := range s.Vals {
			if sh, ok := vs.ValShares[den]; ok {
				sum.Add(sum, sh)
				if sh.Sign() != 0 {
					holders++
				}
			}
		}
		S := world.Rat(a.TotalValidatorShares)
		if S.Sign() < 0 || a.TotalTokens.IsNegative() {
			out = append(out, fail("ledger", "negative-asset-total", "%s: TotalTokens=%s TotalValidatorShares=%s", den, a.TotalTokens, a.TotalValidatorShares))
		}
		if sum.Cmp(S) != 0 {
			out = append(out, fail("ledger", "validator-share-sum", "%s: sum of validator shares %s != TotalValidatorShares %s", den, sum.FloatString(18), S.FloatString(18)))
		}
		if a.TotalTokens.IsZero() && (S.Sign() != 0 || holders > 0) {
			out = append(out, fail("ledger", "no-reset-at-zero", "%s: staked total is 0 but TotalValidatorShares=%s and %d validators still carry shares", den, a.TotalValidatorShares, holders))
		}
	}
	return out
}

func c03Step(x *engine.Exec) []engine.Failure {
	if x.Res.Rejected {
		return nil
	}
	s := x.Next.Snap()
	out := ledgerCheck(s)
	if msg, broken := alliance.RunAllInvariants(x.Next.Ctx, x.W.App.AllianceKeeper); broken {
		out = append(out, fail("registered-invariant", "broken", "%s", msg))
	}
	prev := x.Prev.Snap()
	for _, den := range prev.Denoms {
		if _, still := s.Assets[den]; !still {
			continue // deleted by governance in this transition
		}
		if prev.Assets[den].TotalTokens.IsPositive() && s.Assets[den].TotalTokens.IsZero() {
			x.Cnt.Inc("asset.drained_to_zero")
		}
		if prev.Assets[den].TotalTokens.IsZero() && s.Assets[den].TotalTokens.IsPositive() && prev.Height > 2 {
			x.Cnt.Inc("asset.restaked_after_drain_or_first_stake")
		}
	}
	if x.Op.K == world.KSlash && len(prev.Pos) > 0 {
		x.Cnt.Inc("slash.with_positions")
	}
	if x.Op.K == world.KBlock && !prev.Fee.Equal(s.Fee) {
		x.Cnt.Inc("block.take_rate")
	}
	// K-C10-validator-removed: x/staking removed a validator that alliance delegations still point at; AfterValidatorRemoved
	// deleted its record while its shares stay in the asset totals and the delegations - the ledger cannot add up any more
	if x.W.Cfg.FullPipeline {
		for _, p := range s.Pos {
			if p.V >= 0 && !s.Vals[p.V].Present {
				x.Cnt.Inc("state.alliance_stake_on_removed_validator")
				for i := range out {
					if out[i].Cause == "" || out[i].Cause == "broken" || strings.HasSuffix(out[i].Cause, "-share-sum") {
						out[i].Cause = "validator-removed-while-alliance-stake-on-it"
					}
				}
				break
			}
		}
	}
	return out
}

const big30 = "1000000000000000000000000000000"

func init() {
	register(&Property{
		ID:    "C03",
		Title: "Share ledger consistency",
		Scenarios: func(tier string) []*engine.Scenario {
			mk := func(name string, al Alpha, seeds [][]world.Op, budgets []int, depth int) *engine.Scenario {
				return &engine.Scenario{
					Property: "C03", Name: name, Cfg: world.DefaultConfig(), Stores: world.ModuleStores,
					Seeds: seeds, ClassNames: classNames, Budgets: budgets, MaxDepth: depth,
					Ops: al.Ops, Step: c03Step, SeedStep: true,
					Required: []string{"slash.with_positions"},
				}
			}
			small := Alpha{
				Dels: []int{0, 1}, Vals: []int{0, 1}, Denoms: []string{"aaa"},
				DelAmts: []string{"1", "3", "1000"}, UndAmts: []string{"1", "2", "7"}, UndAll: true,
				RedAmts: []string{"1", "2"}, RedAll: true,
				// 0.5 matters: x*0.5 lands exactly on half a unit of the 18th digit for odd x (round-half-even paths)
				SlashVals: []int{0, 1}, SlashF: []string{"0.333333333333333333", "0.5", "0.99"},
				BlockDts: dts(1, 3, 7),
				// a redelegation that names ONE validator as source and destination, the source spelled in upper case (bech32 is
				// case-insensitive): it must be refused like the lower-case spelling, or two copies of one record are written
				Extra: func(n *engine.Node) []world.Op {
					var ops []world.Op
					for _, v := range []int{0, 1} {
						if _, ok := n.Snap().FindPos(0, v, "aaa"); ok {
							ops = append(ops, world.Op{K: world.KRedelegate, D: 0, V: v, V2: v, Denom: "aaa", Amt: "1", Class: ClsUser, Args: map[string]string{"src_case": "upper"}})
						}
					}
					return ops
				},
			}
			mag := Alpha{
				Dels: []int{0, 1}, Vals: []int{0, 1}, Denoms: []string{"aaa"},
				DelAmts: []string{"1", big30}, UndAmts: []string{"1", "999999999999999999999999999999"}, UndAll: true,
				RedAmts: []string{"1"}, RedAll: true,
				SlashVals: []int{0, 1}, SlashF: []string{"0.5", "0.333333333333333333"},
				BlockDts: dts(3),
			}
			// amounts and a 50% slash that make the share price 5/6 (rounds down at 18 digits): full exits leave validator dust
			dust := []world.Op{opDel(0, 0, "aaa", "4000000000"), opDel(1, 1, "aaa", "2000000000"), opSlash(1, "0.5")}
			cycled := []world.Op{opDel(0, 0, "aaa", "10"), opDel(1, 1, "aaa", "7"), opBlock(3), opSlash(0, "0.333333333333333333"), opRed(1, 1, 0, "aaa", "2")}
			req := func(sc *engine.Scenario) *engine.Scenario {
				sc.Required = append(sc.Required, "asset.drained_to_zero", "block.take_rate")
				return sc
			}
			if tier == "thorough" {
				small.Denoms = []string{"aaa", "bbb"}
				small.SlashF = []string{"0.333333333333333333", "0.5", "0.99"}
				return []*engine.Scenario{
					req(mk("c03-small", small, [][]world.Op{nil}, []int{6, 2, 0, 3, 0}, 8)),
					mk("c03-cycled", small, [][]world.Op{cycled, dust}, []int{5, 2, 0, 3, 0}, 7),
					mk("c03-magnitude", mag, [][]world.Op{nil}, []int{6, 2, 0, 2, 0}, 8),
					unionScenario("C03", "c03-union", tier, c03Step, nil),
					unionFullScenario("C03", "c03-union-full-pipeline", tier, c03Step, nil, 7),
				}
			}
			return []*engine.Scenario{
				mk("c03-cycled", small, [][]world.Op{cycled, dust}, []int{3, 1, 0, 2, 0}, 3),
				mk("c03-magnitude", mag, [][]world.Op{nil}, []int{4, 1, 0, 2, 0}, 5),
				unionScenario("C03", "c03-union", tier, c03Step, nil),
				unionFullScenario("C03", "c03-union-full-pipeline", tier, c03Step, nil, 4),
				req(mk("c03-small", small, [][]world.Op{nil}, []int{3, 1, 0, 2, 0}, 5)),
			}
		},
		Assumptions: []string{
			"amount menu {1,2,3,7,1000} plus the magnitude pairing 1 vs 1e30; slash fractions 1/3, 0.5, 0.99 (the property quantifies over (0,1)); take rate 0.3 with block steps crossing 0, 1 and 3 claim intervals",
			"module-only block boundary",
		},
	})
}
