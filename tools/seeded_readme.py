#!/usr/bin/env python3
import json, os, glob
rows = []
for d in sorted(glob.glob('/verif/seeded/*/meta.json')):
    m = json.load(open(d))
    name = os.path.basename(os.path.dirname(d))
    rows.append((name, m))
out = ['# Seeded changes written by independent sub-agents\n',
       'Each directory holds `patch.diff` (against the /repo commit named in meta.json), the sub-agent\'s demonstration test',
       '(`demo_test.go.txt`, fails with the patch, passes without), its `NOTES.md`, and `meta.json` (what it needs to manifest,',
       'our own verification in a scratch worktree, and what our checks reported). The sub-agents saw only the property text',
       'and a scratch worktree, nothing from /verif. No change was ever committed to /repo.\n',
       '| change | property | our checks |', '|---|---|---|']
for name, m in rows:
    out.append('| %s | %s | %s |' % (name, m['property'], ' / '.join(m['checks_run_against_it']).replace('|', '\\|')))
open('/verif/seeded/README.md', 'w').write('\n'.join(out) + '\n')
print(len(rows), 'seeded changes')
