#!/usr/bin/env python3
import json, os, glob
rows = []
for d in sorted(glob.glob('/verif/seeded/*/meta.json')):
    m = json.load(open(d))
    name = os.path.basename(os.path.dirname(d))
    rows.append((name, m))
out = ['# Seeded changes written by independent sub-agents\n',
       'Each directory holds `patch.diff` (against the /repo commit named in meta.json), the sub-agent\'s demonstration test',
       '(`demo_test.go.txt`, fails with the patch, passes without), its `NOTES.md`, and `meta.json` (what it needs to manifest,',
       'our own verification in a scratch worktree, and what our checks reported). The sub-agents saw only the property text',
       'and a scratch worktree, nothing from /verif. No change was ever committed to /repo.\n',
       '| change | property | our checks |', '|---|---|---|']
for name, m in rows:
    out.append('| %s | %s | %s |' % (name, m['property'], ' / '.join(m['checks_run_against_it']).replace('|', '\\|')))
open('/verif/seeded/README.md', 'w').write('\n'.join(out) + '\n')
print(len(rows), 'seeded changes')

# also refresh the summary table of DESIGN.md section 8 (between the markers)
import re
d = open('/verif/DESIGN.md').read()
tab = ['<!-- SEEDED-TABLE-BEGIN -->', '| seeded change (seeded/<dir>) | property | caught by | needed strengthening? |', '|---|---|---|---|']
for name, m in rows:
    cr = m['checks_run_against_it']
    last = cr[-1]
    caught = re.findall(r'(C\d\d) (?:quick|exit)', ' '.join(cr))
    strengthened = 'yes - ' + cr[0].split(':',1)[1].strip()[:160] if len(cr) > 1 else 'no'
    who = sorted(set(re.findall(r'(C\d\d)[^;]*?exit 1', ' '.join(cr)))) or [m['property']]
    if 'NOT DETECTED' in ' '.join(cr) and 'exit 1' not in ' '.join(cr):
        who, strengthened = ['none (not detected)'], 'no - ' + cr[0].split(':',1)[1].strip()[:200]
    tab.append('| %s | %s | %s | %s |' % (name, m['property'], ', '.join(who), strengthened.replace('|','/')))
tab.append('<!-- SEEDED-TABLE-END -->')
block = '\n'.join(tab)
if '<!-- SEEDED-TABLE-BEGIN -->' in d:
    d = re.sub(r'<!-- SEEDED-TABLE-BEGIN -->.*?<!-- SEEDED-TABLE-END -->', lambda _: block, d, flags=re.S)
else:
    d = d.rstrip() + '\n\n' + block + '\n'
open('/verif/DESIGN.md', 'w').write(d)
