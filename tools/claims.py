# Claimed checks. Executed by gen_manifest.py. One claim(...) per property.
NOT_CLAIMED = {}

claim("C01", "DESIGN.md §4 C01",
      "Every history of the bounded alphabet (delegate/undelegate/redelegate/claim by 2 delegators on 2 validators, slash 1/3 and 100%, reward inflow in the bond denom and in an alliance denom, unsolicited gifts, block steps of 1 and 3 units) is executed on the real keeper and the custody equation is evaluated exactly in every reached state. Exhaustive within the stated budgets; says nothing about amounts or participants outside the menus.",
      "Trusted: the harness's world construction (real App, deterministic genesis), cosmos-sdk cache-branch semantics as the tx rollback mechanism, SHA-256 state identity. Module-only block boundary (alliance EndBlocker alone).")

claim("C03", "DESIGN.md §4 C03",
      "After every transition of every bounded history (small-amount menu, a 1-vs-1e30 magnitude pairing, slashes 1/3, 0.5, 0.99, take-rate steps over 0/1/3 intervals, full drains and re-staking) the share ledger is recomputed from the raw primary records and compared exactly: per validator/denom sum of delegation shares vs recorded total (including totals left without delegations), per asset sum of validator shares vs recorded total, non-negativity, reset at zero stake; the module's registered invariants are run as well.",
      "Trusted: world construction and state identity as for C01. The registered validator-shares invariant is vacuous on this tree (GetAllAllianceValidatorInfo's deferred Close overwrites the decode error), so the independent recomputation is the deciding oracle.")

claim("C02", "DESIGN.md §4 C02",
      "Every bounded history of undelegations (several per block per delegator across validators and denoms, repeated from one validator), slashes and block steps on the 10-second time lattice (block times before, exactly at and after completion) is run on the real keeper under two unbonding periods plus a mid-history parameter change; after every transition the delegators' bank deltas, the stored queue and its per-validator index are compared exactly with a list-based reference (entry paid once, at the first EndBlocker strictly after completion, amount minus only the slashes of its own validator).",
      "Trusted: world construction/state identity as C01. No reward inflow and take rate 0 in this scenario so that delegator balances in asset denoms have a closed form.")

claim("C07", "DESIGN.md §4 C07",
      "All packings of up to 3 (thorough 4) undelegations/redelegations of one delegator (plus a second delegator) into blocks, followed by up to two block steps and a slash of each validator by 1/3, 0.5 or 1, are executed; on the slash transition every pending unbonding entry, the fee-collector and custody deltas are compared exactly with the reference, untouched positions must keep their shares, and destination positions of pending redelegations are compared with g*value - f*amount. Two genuine defects are reported as KNOWN-FINDING through quantitative mechanism classifiers; anything else is a violation.",
      "Trusted: as C01. Value tolerance 1 + 1e-17*T + one unit per pending entry. The classifiers accept only failures whose share movements equal the code's burn mechanism for exactly floor(f*amount) (or f*merged-record total).")
