# Claimed checks. Executed by gen_manifest.py. One claim(...) per property.
NOT_CLAIMED = {}

claim("C01", "DESIGN.md §4 C01",
      "Every history of the bounded alphabet (delegate/undelegate/redelegate/claim by 2 delegators on 2 validators, slash 1/3 and 100%, reward inflow in the bond denom and in an alliance denom, unsolicited gifts, block steps of 1 and 3 units) is executed on the real keeper and the custody equation is evaluated exactly in every reached state. Exhaustive within the stated budgets; says nothing about amounts or participants outside the menus.",
      "Trusted: the harness's world construction (real App, deterministic genesis), cosmos-sdk cache-branch semantics as the tx rollback mechanism, SHA-256 state identity. Module-only block boundary (alliance EndBlocker alone).")

claim("C03", "DESIGN.md §4 C03",
      "After every transition of every bounded history (small-amount menu, a 1-vs-1e30 magnitude pairing, slashes 1/3, 0.5, 0.99, take-rate steps over 0/1/3 intervals, full drains and re-staking) the share ledger is recomputed from the raw primary records and compared exactly: per validator/denom sum of delegation shares vs recorded total (including totals left without delegations), per asset sum of validator shares vs recorded total, non-negativity, reset at zero stake; the module's registered invariants are run as well.",
      "Trusted: world construction and state identity as for C01. The registered validator-shares invariant is vacuous on this tree (GetAllAllianceValidatorInfo's deferred Close overwrites the decode error), so the independent recomputation is the deciding oracle.")
