# Claimed checks. Executed by gen_manifest.py. One claim(...) per property.
NOT_CLAIMED = {}

claim("C01", "DESIGN.md §4 C01",
      "Every history of the bounded alphabet (delegate/undelegate/redelegate/claim by 2 delegators on 2 validators, slash 1/3 and 100%, reward inflow in the bond denom and in an alliance denom, unsolicited gifts, block steps of 1 and 3 units) is executed on the real keeper and the custody equation is evaluated exactly in every reached state. Exhaustive within the stated budgets; says nothing about amounts or participants outside the menus.",
      "Trusted: the harness's world construction (real App, deterministic genesis), cosmos-sdk cache-branch semantics as the tx rollback mechanism, SHA-256 state identity. Module-only block boundary (alliance EndBlocker alone).")
