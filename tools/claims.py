# Claimed checks. Executed by gen_manifest.py. One claim(...) per property.
NOT_CLAIMED = {}

claim("C01", "DESIGN.md §4 C01",
      "Every history of the bounded alphabet (delegate/undelegate/redelegate/claim by 2 delegators on 2 validators, slash 1/3 and 100%, reward inflow in the bond denom and in an alliance denom, unsolicited gifts, block steps of 1 and 3 units) is executed on the real keeper and the custody equation is evaluated exactly in every reached state. Exhaustive within the stated budgets; says nothing about amounts or participants outside the menus.",
      "Trusted: the harness's world construction (real App, deterministic genesis), cosmos-sdk cache-branch semantics as the tx rollback mechanism, SHA-256 state identity. Module-only block boundary (alliance EndBlocker alone).")

claim("C03", "DESIGN.md §4 C03",
      "After every transition of every bounded history (small-amount menu, a 1-vs-1e30 magnitude pairing, slashes 1/3, 0.5, 0.99, take-rate steps over 0/1/3 intervals, full drains and re-staking) the share ledger is recomputed from the raw primary records and compared exactly: per validator/denom sum of delegation shares vs recorded total (including totals left without delegations), per asset sum of validator shares vs recorded total, non-negativity, reset at zero stake; the module's registered invariants are run as well.",
      "Trusted: world construction and state identity as for C01. The registered validator-shares invariant is vacuous on this tree (GetAllAllianceValidatorInfo's deferred Close overwrites the decode error), so the independent recomputation is the deciding oracle.")

claim("C02", "DESIGN.md §4 C02",
      "Every bounded history of undelegations (several per block per delegator across validators and denoms, repeated from one validator), slashes and block steps on the 10-second time lattice (block times before, exactly at and after completion) is run on the real keeper under two unbonding periods plus a mid-history parameter change; after every transition the delegators' bank deltas, the stored queue and its per-validator index are compared exactly with a list-based reference (entry paid once, at the first EndBlocker strictly after completion, amount minus only the slashes of its own validator).",
      "Trusted: world construction/state identity as C01. No reward inflow and take rate 0 in this scenario so that delegator balances in asset denoms have a closed form.")

claim("C07", "DESIGN.md §4 C07",
      "All packings of up to 3 (thorough 4) undelegations/redelegations of one delegator (plus a second delegator) into blocks, followed by up to two block steps and a slash of each validator by 1/3, 0.5 or 1, are executed; on the slash transition every pending unbonding entry, the fee-collector and custody deltas are compared exactly with the reference, untouched positions must keep their shares, and destination positions of pending redelegations are compared with g*value - f*amount. Two genuine defects are reported as KNOWN-FINDING through quantitative mechanism classifiers; anything else is a violation.",
      "Trusted: as C01. Value tolerance 1 + 1e-17*T + one unit per pending entry. The classifiers accept only failures whose share movements equal the code's burn mechanism for exactly floor(f*amount) (or f*merged-record total).")

claim("C04", "DESIGN.md §4 C04",
      "From seed states whose share price differs from 1 (real take-rate deductions and slashes), every sequence of up to 3 (thorough 5) user transactions, optionally interleaved with one slash (1/3, 0.5, 1) and one block, is executed; on each successful user transaction the exact rational value of every position before/after is compared: the actor's moves by the requested amount, every other position by nothing, within 1 + 1e-17*T; reported balance growth of a deposit never exceeds the deposit; reported values never sum to more than the staked total plus one unit per position. Four dust/degenerate-state defects are reported as KNOWN-FINDING through call-site precondition classifiers.",
      "Trusted: as C01. Values are recomputed from stored shares with big.Rat (no LegacyDec rounding in the observer). Classifiers are predicates on the pre-state of the failing transaction (delegator-share total < 1, orphan validator shares, > 100 tokens per share, asset share total 0 with positive staked total).")

claim("C06", "DESIGN.md §4 C06",
      "From three seed states (uneven stake in two assets over three validators, matured and pending redelegations, a prior take-rate step, a 1e30 position) every slash of every validator by {0.01%,1%,5%,1/3,50%,99%,100%}, alone, twice in a row, and after up to two user transactions and a block, is executed; each position's exact value is compared with (1-f)*g*value resp. g*value, per-validator sums with g*sum, the staked total must not move and custody may drop only by what pending unbondings forward.",
      "Trusted: as C01. Destination positions of pending redelegations are C07's; states where an asset's share total is 0 (everything slashed by 100%) are excluded from the proportionality check as DESIGN §4 C06 states.")

claim("C08", "DESIGN.md §4 C08",
      "Histories that manipulate the destination of a pending redelegation (partial/complete undelegation, onward redelegation, slash of the destination first, governance deletion of a drained asset) followed by one or two slashes of any validator (including one without alliance stake) are enumerated; the callback must return nil without panic, leave the rebalance flag set and have completed every pending-unbonding slash. One scenario calls the hook directly outside a transaction branch, a second one goes through the real StakingKeeper.Slash of a full-pipeline world and reads the swallowed error from a capturing logger.",
      "Trusted: as C01; full-pipeline world additionally relies on harness-built VoteInfos. Reward-pool shortfalls are excluded here (no reward inflow) and decided under C12.")
