#!/usr/bin/env python3
"""Generates /verif/MANIFEST.json from the table below (single source of truth for claimed checks)."""
import json, os

HERE = os.path.dirname(os.path.dirname(os.path.abspath(__file__)))
props = [json.loads(l) for l in open(os.path.join(HERE, "properties.jsonl"))]
titles = {p["id"]: p["title"] for p in props}

TECH = "bounded exhaustive explicit-state search of the implementation (DFS over real handlers on cache branches, full-state hashing)"

# id -> (design_ref, level text, level note)
CLAIMED = {}

def claim(pid, ref, text, note):
    CLAIMED[pid] = (ref, text, note)

exec(open(os.path.join(HERE, "tools", "claims.py")).read())

checks = []
for pid in sorted(CLAIMED):
    ref, text, note = CLAIMED[pid]
    checks.append({
        "property_id": pid,
        "quick_cmd": f"./check {pid} quick",
        "thorough_cmd": f"./check {pid} thorough",
        "evidence_file": f"/verif/evidence/{pid}.json",
        "replay_cmd_template": "./check replay {path}",
        "engine": "amc",
        "level_claimed": {"category": "model_checking", "text": text, "design_ref": ref},
        "level_note": note,
        "technique": TECH,
    })

na = []
for p in props:
    if p["id"] not in CLAIMED:
        na.append({"property_id": p["id"], "reason": NOT_CLAIMED.get(p["id"], "check not built yet (work in progress); no verdict is claimed")})

manifest = {
    "version": 1,
    "setup_cmd": "./setup.sh",
    "hooks": {
        "guard": "verif",
        "enable": "no hooks are compiled into /repo: every observation point is reachable through exported keeper methods, raw store prefixes via app.GetKey and the bank/staking/distribution keepers; checks build /verif/mc against /repo through a go.mod replace directive (go build [-tags verif] has no effect on /repo)",
        "baseline_off_cmd": "cd /repo && GOFLAGS=-mod=mod GOPROXY=off GOSUMDB=off GOTOOLCHAIN=local go test -vet=off -count=1 -timeout 25m ./...",
        "source_commits": [],
        "add_only": True,
    },
    "engines": [{
        "name": "amc",
        "path": "/verif/mc",
        "serves_properties": sorted(CLAIMED),
        "kind_free_text": "hand-written explicit-state model checker over the real x/alliance keeper: transitions are real msg-server / hook / EndBlocker / governance calls on sdk.Context cache branches of a real App; states deduplicated by SHA-256 of the full store content; per-class operation budgets; reference models in exact rationals",
    }],
    "checks": checks,
    "not_applicable": na,
    "notes": "All checks share one binary (bin/amc) rebuilt from /repo's working tree by ./check on every invocation. Exit 0 = held on everything explored (KNOWN-FINDING lines for entries of known_findings.json), 1 = VIOLATION lines, 2 = harness problem (build failure, vacuous coverage, non-determinism).",
}
json.dump(manifest, open(os.path.join(HERE, "MANIFEST.json"), "w"), indent=1)
print("claimed:", sorted(CLAIMED), "not claimed:", [x["property_id"] for x in na])
