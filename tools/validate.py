#!/usr/bin/env python3
import json, jsonschema, glob, sys
m=json.load(open('/verif/MANIFEST.json')); jsonschema.validate(m, json.load(open('/root/.vp/MANIFEST.schema.json')))
sch=json.load(open('/root/.vp/EVIDENCE.schema.json'))
for c in m['checks']:
    f=c['evidence_file']
    try:
        e=json.load(open(f)); jsonschema.validate(e, sch); print("ok", f, e['tier'], e['coverage'].get('states'), e['coverage'].get('transitions'), 'exhaustive=',e['coverage'].get('exhaustive'), 'viol=',e.get('violations'))
    except Exception as ex:
        print("BAD", f, str(ex)[:200])
