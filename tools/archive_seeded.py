#!/usr/bin/env python3
"""usage: archive_seeded.py <name> <worktree> <property> <verify-line-file> <detect-log-line...>
Copies a verified sub-agent change into /verif/seeded/<name>/ with meta.json."""
import sys, os, shutil, json, re, subprocess
name, wt, prop, vfile = sys.argv[1:5]
detect = sys.argv[5:]
dst = '/verif/seeded/' + name
os.makedirs(dst, exist_ok=True)
so = os.path.join(wt, 'seeded_out')
shutil.copy(os.path.join(so, 'patch.diff'), os.path.join(dst, 'patch.diff'))
for f in ('demo_test.go', 'demo_test.go.txt'):
    if os.path.exists(os.path.join(so, f)):
        shutil.copy(os.path.join(so, f), os.path.join(dst, 'demo_test.go.txt'))
if os.path.exists(os.path.join(so, 'NOTES.md')):
    shutil.copy(os.path.join(so, 'NOTES.md'), os.path.join(dst, 'NOTES.md'))
vline = ''
for l in open(vfile):
    if (' ' + wt + ' ') in l:
        vline = l.strip()
notes = open(os.path.join(dst, 'NOTES.md')).read() if os.path.exists(os.path.join(dst, 'NOTES.md')) else ''
m = re.search(r'(?is)(what is needed[^\n]*\n)(.*?)(\n#|\Z)', notes)
needs = (m.group(2).strip()[:1200] if m else 'see NOTES.md')
base = subprocess.check_output(['git', '-C', wt, 'log', '--format=%h', '-1']).decode().strip()
meta = {
    'property': prop,
    'origin': 'written by an independent sub-agent that was given only the property text and a scratch worktree of /repo (nothing from /verif)',
    'base_commit': base,
    'needs_to_manifest': needs,
    'independent_verification': {
        'how': 'tools/verify_seeded.sh <scratch worktree>: demo test on the clean tree, git apply patch.diff, demo test again, demo moved aside and full `go test -vet=off -count=1 ./...`',
        'result': vline,
    },
    'checks_run_against_it': detect,
    'how_to_rerun': 'git -C /repo apply /verif/seeded/%s/patch.diff && (cd /verif && VERIF_OUT=/tmp/mutout/x ./check %s quick); git -C /repo checkout -- .' % (name, prop),
}
json.dump(meta, open(os.path.join(dst, 'meta.json'), 'w'), indent=1)
print('archived', dst)
