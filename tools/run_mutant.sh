#!/bin/sh
# usage: tools/run_mutant.sh <patch.diff> <property-id> [tier]
# Applies a patch to /repo, runs the check with outputs redirected to a scratch directory, reverts the patch.
# Prints: MUTANT <patch> <id> exit=<rc> [first VIOLATION line]
P="$1"; ID="$2"; TIER="${3:-quick}"
OUT="${MUT_OUT:-/tmp/mutout}/$(basename "$P" .diff)-$ID"
mkdir -p "$OUT"
cd /repo || exit 9
if ! git apply --check "$P" 2>/dev/null; then echo "MUTANT $(basename $P) $ID exit=APPLY-FAILED"; exit 0; fi
git apply "$P"
VERIF_OUT="$OUT" /verif/check "$ID" "$TIER" > "$OUT/log.txt" 2>&1
rc=$?
git -C /repo checkout -- . 
echo "MUTANT $(basename $P) $ID exit=$rc $(grep -m1 '^VIOLATION\|^BUILD-FAILED\|^VACUOUS' $OUT/log.txt | cut -c1-160) | $(grep -m1 'violation oracle' $OUT/log.txt | cut -c1-120)"
