#!/bin/bash
# usage: tools/verify_seeded.sh <scratch-worktree>   (verifies a sub-agent's seeded change independently)
# 1 demo passes on the clean tree, 2 patch applies, 3 demo fails with the patch, 4 the repository's suite passes with the patch.
WT="$1"
export GOFLAGS=-mod=mod GOPROXY=off GOSUMDB=off GOTOOLCHAIN=local
cd "$WT" || exit 9
DEMO=$(git status --porcelain | grep '^??' | awk '{print $2}' | grep '_test.go$' | head -1)
if [ -z "$DEMO" ]; then echo "VERIFY $WT: no untracked demo test found"; exit 1; fi
PKG=./$(dirname "$DEMO")
cp "$DEMO" /tmp/seeded_demo_$$.go
git checkout -- . >/dev/null 2>&1
TESTS=$(grep -o '^func Test[A-Za-z0-9_]*' /tmp/seeded_demo_$$.go | sed 's/func //' | paste -sd'|')
r1=$(go test -vet=off -count=1 -run "^($TESTS)\$" $PKG 2>&1 | tail -1)
git apply seeded_out/patch.diff || { echo "VERIFY $WT: patch does not apply"; exit 1; }
r2=$(go test -vet=off -count=1 -run "^($TESTS)\$" $PKG 2>&1 | tail -1)
mv "$DEMO" /tmp/seeded_demo_$$.aside
mv seeded_out /tmp/seeded_out_$$
go test -vet=off -count=1 ./... > /tmp/seeded_suite_$$.log 2>&1
r3=$(grep -c '^FAIL\|^--- FAIL\|panic:' /tmp/seeded_suite_$$.log)
go build ./... >/dev/null 2>&1; rb=$?
mv /tmp/seeded_out_$$ seeded_out
mv /tmp/seeded_demo_$$.aside "$DEMO"
git checkout -- x/alliance/tests/benchmark/benchmark_genesis.json 2>/dev/null
echo "VERIFY $WT demo=$DEMO tests=$TESTS | clean-tree: $r1 | with-patch: $r2 | suite-failures-with-patch: $r3 build=$rb"
