#!/bin/bash
# usage: tools/run_overlay.sh <patch.diff> <property-id> [tier] [extra amc flags]
# Like run_mutant.sh but WITHOUT touching /repo: the patched files are materialised in a scratch directory and handed
# to `go build -overlay` (VERIF_OVERLAY). Safe to use while other checks run against /repo.
P="$(readlink -f "$1")"; ID="$2"; TIER="${3:-quick}"; shift; shift; shift
NAME=$(basename $(dirname "$P"))-$(basename "$P" .diff)
D=/tmp/ovl/$NAME-$ID; rm -rf "$D"; mkdir -p "$D/src" "$D/out"
FILES=$(grep '^+++ b/' "$P" | sed 's|^+++ b/||')
for f in $FILES; do mkdir -p "$D/src/$(dirname $f)"; cp "/repo/$f" "$D/src/$f" 2>/dev/null; done
(cd "$D/src" && patch -p1 -s < "$P") || { echo "OVERLAY $NAME $ID exit=PATCH-FAILED"; exit 0; }
{ echo '{"Replace":{'; first=1; for f in $FILES; do [ $first = 1 ] || echo ','; first=0; printf '"/repo/%s":"%s/src/%s"' "$f" "$D" "$f"; done; echo '}}'; } > "$D/overlay.json"
VERIF_OUT="$D/out" VERIF_OVERLAY="$D/overlay.json" /verif/check "$ID" "$TIER" "$@" > "$D/log.txt" 2>&1
rc=$?
echo "OVERLAY $NAME $ID exit=$rc $(grep -m1 '^VIOLATION\|^BUILD-FAILED\|^VACUOUS' $D/log.txt | cut -c1-150) | $(grep -m1 'violation oracle' $D/log.txt | cut -c1-120)"
